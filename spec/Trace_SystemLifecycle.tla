------------------------ MODULE Trace_SystemLifecycle ------------------------
(* Trace validation of the REAL system's lifecycle (harness/src/bin/system.rs          *)
(* `lifecycle`: SystemBuilder, two mock exchanges, all four mode combinations, the     *)
(* three ways to stop) against SystemLifecycle.tla.  One chronological log per run:    *)
(*   {"a":"Reset","audit":a}            (inserted by bin/props/lifecycle.py) a new run   *)
(*   {"a":"Start","mode":m,"audit":a}   SystemBuild::init                                *)
(*   {"a":"Yield","k":k}                the market forwarder took item k from the source *)
(*        and sent it to the feed (same poll, same thread as the driver)                  *)
(*   {"a":"SrcEnd"}                     the market forwarder found the source ended       *)
(*   {"a":"Cmd","c":c}                  the driver is about to hand command c to the API  *)
(*   {"a":"Proc","ev":e}                the ENGINE starts processing e (recording clock): *)
(*        m<k> | c<j> (recognised by content; "c?" = a command nobody handed over) |      *)
(*        acct | notice (account-stream disconnect notice) | sd                            *)
(*   {"a":"TakeAudit","some":b,"snap_seq":n,"snap_eq":b}  take_audit returned; the        *)
(*        snapshot's sequence number, and whether its state is the state the engine was   *)
(*        built with (nothing processed yet)                                               *)
(*   {"a":"DropAudit"}                  the driver drops the receiver it took              *)
(*   {"a":"StopCall","kind":k}          the driver is about to call shutdown / abort /     *)
(*        shutdown_after_backtest                                                          *)
(*   {"a":"StopRet","kind":k,"final":f,"tasks":{task: ended},"log":[e..],"seq":n,        *)
(*    "twin":b,"holds":b,"ticks":[{seq,ev}..]}   the call returned Ok: the final audit,     *)
(*        which tasks have ended (JoinHandle::is_finished after the runtime polled them    *)
(*        once more), everything the returned engine processed, its sequence counter,      *)
(*        whether its state equals a TWIN engine fed the same events synchronously, and -  *)
(*        if the driver still holds the audit receiver - every record it received          *)
(* Steps the log cannot show are placed by the validator:                                  *)
(*  * feed_tx.send(Shutdown) of shutdown()/abort() is synchronous with the call (CallStop); *)
(*    for shutdown_after_backtest it is placed JUST IN TIME at "Proc sd" - it needs the     *)
(*    market forwarder finished (StopAwaitMarket) and puts Shutdown BEHIND everything       *)
(*    already in the feed, so a Shutdown processed earlier than that is rejected            *)
(*  * AcctArrive: an account item enters the feed unobserved.  AcctArrive only appends and  *)
(*    commutes with every other append and with engine steps on other items, and account    *)
(*    items are indistinguishable, so a behaviour with the item processed at this point     *)
(*    exists iff the engine is running here: "Proc acct" = AcctArrive (earlier) . EngineStep *)
(*  * the rest of the stop call (aborts, ExecEnd of every exchange, return) at StopRet      *)
(* A line that is not a step of the specification is recorded in `bad` with tags naming    *)
(* what differs, the observed state is adopted, validation continues.                      *)
EXTENDS SystemLifecycle, Json, IOUtils

Log == ndJsonDeserialize(IOEnv.TRACE)

VARIABLES l, bad
tvars == <<vars, l, bad>>
R == Log[l]
Note(tags) == bad' = IF tags = {} THEN bad ELSE Append(bad, <<l, tags>>)

TInit == /\ audit = "off" /\ api = "init" /\ stop = "none" /\ pc = "-"
         /\ task = [t \in TASKS |-> "idle"] /\ src = 0 /\ srcDone = FALSE
         /\ feed = <<>> /\ processed = <<>> /\ entered = <<>> /\ sent = <<>>
         /\ eseq = 0 /\ auditRx = "none" /\ auditTx = "none" /\ auditQ = <<>> /\ takeLog = <<>> /\ acct = 0
         /\ l = 1 /\ bad = <<>>

TReset == /\ R.a = "Reset"
          /\ audit' = R.audit /\ api' = "init" /\ stop' = "none" /\ pc' = "-"
          /\ task' = [t \in TASKS |-> "idle"] /\ src' = 0 /\ srcDone' = FALSE
          /\ feed' = <<>> /\ processed' = <<>> /\ entered' = <<>> /\ sent' = <<>>
          /\ eseq' = 0 /\ auditRx' = "none" /\ auditTx' = "none" /\ auditQ' = <<>> /\ takeLog' = <<>> /\ acct' = 0
          /\ UNCHANGED bad

TStart == /\ R.a = "Start" /\ Start(R.mode) /\ Note({})

TYield == /\ R.a = "Yield"
          /\ IF Running(MFWD) /\ ~srcDone /\ src < NMarket /\ api # "returned" /\ R.k = src + 1
             THEN \* (engine stopped: whether the forwarder ended on this item shows only later - keep it running, the
                  \*  weaker of the two branches; the stop call's own aborts / the observed task states settle it)
                  SrcYield /\ task' = task /\ Note({})
             ELSE /\ src' = R.k
                  /\ IF Running(ENGINE) /\ R.k \in 1..Len(MK)
                     THEN feed' = Append(feed, MK[R.k]) /\ entered' = Append(entered, MK[R.k])
                     ELSE UNCHANGED <<feed, entered>>
                  /\ UNCHANGED <<audit, api, stop, pc, task, srcDone, processed, sent, eseq, auditRx, auditTx, auditQ, takeLog, acct>>
                  /\ Note({"source"})
TSrcEnd == /\ R.a = "SrcEnd"
           /\ IF Running(MFWD) /\ ~srcDone /\ api # "returned"
              THEN SrcEnd /\ Note({})
              ELSE /\ srcDone' = TRUE
                   /\ UNCHANGED <<audit, api, stop, pc, task, src, feed, processed, entered, sent, eseq, auditRx, auditTx, auditQ, takeLog, acct>>
                   /\ Note({"source"})

TCmd == /\ R.a = "Cmd"
        /\ IF api = "running" /\ R.c \in CMDS /\ R.c \notin Range(sent) /\ Running(ENGINE)
           THEN SendCommand(R.c) /\ Note({})
           ELSE UNCHANGED vars /\ Note({"harness"})

SnapTags == IF R.some /\ (R.snap_seq # SnapSeq \/ ~R.snap_eq) THEN {"audit_snapshot"} ELSE {}
TTake == /\ R.a = "TakeAudit"
         /\ IF api = "running" /\ Len(takeLog) < MaxTakes /\ R.some = (auditRx = "insys")
            THEN TakeAudit /\ Note(SnapTags)
            ELSE \* Some although nothing is left to take / None although the receiver is there: adopt
                 /\ takeLog' = Append(takeLog, R.some)
                 /\ auditRx' = IF R.some THEN "taken" ELSE auditRx
                 /\ UNCHANGED <<audit, api, stop, pc, task, src, srcDone, feed, processed, entered, sent, eseq, auditTx, auditQ, acct>>
                 /\ Note({"audit_take"} \cup SnapTags \cup (IF P_TakeOnce(takeLog', audit) THEN {} ELSE {"P:AuditOnce"}))
TDrop == /\ R.a = "DropAudit"
         /\ IF api = "running" /\ auditRx = "taken"
            THEN DropAudit /\ Note({})
            ELSE UNCHANGED vars /\ Note({"harness"})

TStopCall == /\ R.a = "StopCall"
             /\ IF api = "running" /\ R.kind \in STOPS /\ Running(ENGINE)
                THEN CallStop(R.kind) /\ Note({})
                ELSE UNCHANGED vars /\ Note({"harness"})

(* ---- the engine ---- *)
IndexOf(s, x) == CHOOSE i \in 1..Len(s) : s[i] = x /\ \A j \in 1..(i - 1) : s[j] # x
Without(s, i) == SubSeq(s, 1, i - 1) \o SubSeq(s, i + 1, Len(s))
Skipped(x) == {feed[j] : j \in 1..(IndexOf(feed, x) - 1)}
SkipTags(S) == (IF \E y \in S : IsCmd(y) THEN {"cmd_lost"} ELSE {}) \cup (IF \E y \in S : IsMarket(y) THEN {"market_lost"} ELSE {})

\* the engine is not running, yet it processes something
TProcDead == /\ processed' = Append(processed, R.ev) /\ eseq' = eseq + 1
             /\ UNCHANGED <<audit, api, stop, pc, task, src, srcDone, feed, entered, sent, auditRx, auditTx, auditQ, takeLog, acct>>
             /\ Note({"after_shutdown"})
\* AcctArrive (earlier, unobserved) . EngineStep
TProcAcct == /\ processed' = Append(processed, ACCT) /\ eseq' = eseq + 1 /\ acct' = acct + 1
             /\ AuditSend(ACCT)
             /\ UNCHANGED <<audit, api, stop, pc, task, src, srcDone, feed, entered, sent, auditRx, takeLog>>
             /\ Note({})
\* a market item / a command / anything else that must come out of the feed
TProcItem(ev) ==
  IF feed # <<>> /\ Head(feed) = ev
  THEN EngineStep /\ Note({})
  ELSE /\ processed' = Append(processed, ev) /\ eseq' = eseq + 1 /\ AuditSend(ev)
       \* (a command nobody handed over, with a command waiting at the head of the feed: that one, altered on the way)
       /\ feed' = IF ev \in Range(feed) THEN Without(feed, IndexOf(feed, ev))
                  ELSE IF ev = "c?" /\ feed # <<>> /\ IsCmd(Head(feed)) THEN Tail(feed) ELSE feed
       /\ UNCHANGED <<audit, api, stop, pc, task, src, srcDone, entered, sent, auditRx, takeLog, acct>>
       /\ Note(IF ev \in Range(feed)
               THEN \* it overtook what entered the feed before it
                    (IF IsCmd(ev) \/ \E y \in Skipped(ev) : IsCmd(y) THEN {"cmd_order"} ELSE {})
                    \cup (IF IsMarket(ev) \/ \E y \in Skipped(ev) : IsMarket(y) THEN {"market_order"} ELSE {})
               ELSE IF ev = "notice" THEN {"link_notice"}
               ELSE IF IsCmd(ev) \/ ev = "c?" THEN {"cmd_fidelity"}       \* not handed over / processed twice / altered on the way
               ELSE IF IsMarket(ev) THEN {"market_phantom"}
               ELSE {"phantom_event"})
\* the Shutdown record
SdEffects == /\ processed' = Append(processed, SD) /\ eseq' = eseq + 1 /\ AuditSend(SD)
             /\ task' = [task EXCEPT ![ENGINE] = "finished"] /\ feed' = <<>>
TProcSd ==
  LET jit == api = "stopping" /\ stop = "backtest" /\ pc = "awaitMarket" IN
  IF api = "stopping" /\ pc = "awaitEngine" /\ feed # <<>> /\ Head(feed) = SD
  THEN EngineStep /\ Note({})
  ELSE IF jit /\ task[MFWD] = "finished" /\ feed = <<>>
  THEN \* StopAwaitMarket . EngineStep
       /\ SdEffects /\ entered' = Append(entered, SD) /\ pc' = "awaitEngine"
       /\ UNCHANGED <<audit, api, stop, src, srcDone, sent, auditRx, takeLog, acct>>
       /\ Note({})
  ELSE /\ SdEffects
       /\ entered' = IF SD \in Range(entered) THEN entered ELSE Append(entered, SD)
       /\ pc' = IF api = "stopping" THEN "awaitEngine" ELSE pc
       /\ UNCHANGED <<audit, api, stop, src, srcDone, sent, auditRx, takeLog, acct>>
       /\ Note(IF api # "stopping" THEN {"phantom_shutdown"}
               ELSE IF jit
               THEN \* Shutdown processed although the market forwarder had not finished / ahead of items already in the feed
                    {"drain"} \cup SkipTags(Range(feed))
               ELSE IF SD \in Range(feed) THEN SkipTags(Skipped(SD)) \cup {"shutdown_overtook"}
               ELSE {"phantom_shutdown"})
TProc == /\ R.a = "Proc"
         /\ IF ~Running(ENGINE) THEN TProcDead
            ELSE IF R.ev = ACCT THEN TProcAcct
            ELSE IF R.ev = SD THEN TProcSd
            ELSE TProcItem(R.ev)

(* ---- the stop call has returned: the rest of the procedure, then what came back ---- *)
TStopRet ==
  /\ R.a = "StopRet"
  /\ LET tk1 == Aborted(task)                                                       \* StopAwaitEngine
         tk2 == [t \in TASKS |-> IF t \in EXCH /\ tk1[t] = "running" THEN "finished" ELSE tk1[t]]   \* ExecEnd(x), every x
         log == R.log
     IN /\ task' = tk2
        /\ api' = "returned" /\ pc' = "done"
        /\ auditRx' = IF auditRx = "insys" THEN "dropped" ELSE auditRx
        /\ UNCHANGED <<audit, stop, src, srcDone, feed, processed, entered, sent, eseq, auditTx, auditQ, takeLog, acct>>
        /\ Note((IF api = "stopping" /\ R.kind = stop THEN {} ELSE {"harness"})
                \cup (IF task[ENGINE] = "finished" THEN {} ELSE {"engine_not_stopped"})
                \* the spec's property formulas, evaluated on what the real system returned
                \cup (IF P_AllStopped(tk2) /\ \A t \in TASKS : R.tasks[t] THEN {} ELSE {"task_running"})
                \cup (IF R.final = SD /\ P_ShutdownLast(log) THEN {} ELSE {"final_record"})
                \cup (IF P_CommandsAll(log, sent) THEN {} ELSE {"cmd_lost"})
                \cup (IF R.kind = "backtest" => P_Drained(log, src, srcDone) THEN {} ELSE {"drain"})
                \cup (IF log = processed THEN {} ELSE {"returned_log"})
                \cup (IF R.seq = eseq THEN {} ELSE {"returned_seq"})
                \cup (IF R.twin THEN {} ELSE {"returned_state"})
                \cup (IF R.holds
                      THEN IF auditRx = "taken" /\ R.ticks = auditQ /\ P_GapFree(R.ticks, log) /\ Len(R.ticks) = Len(log)
                           THEN {} ELSE {"audit_ticks"}
                      ELSE IF auditRx # "taken" THEN {} ELSE {"harness"}))

TNext == /\ l <= Len(Log) /\ l' = l + 1
         /\ (TReset \/ TStart \/ TYield \/ TSrcEnd \/ TCmd \/ TTake \/ TDrop \/ TStopCall \/ TProc \/ TStopRet)
TSpec == TInit /\ [][TNext]_tvars

Done == l = Len(Log) + 1 => PrintT(<<"TRACE_END", ToJson(bad)>>)
Post == PrintT(<<"TRACE_DONE", TLCGet("stats").diameter, Len(Log)>>)
=============================================================================
