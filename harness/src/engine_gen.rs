//! Seeded random event / environment generators shared by the engine-level drivers.
use crate::{engine_kit::CLOSE_CID, world2};
use rand::{Rng, rngs::StdRng, seq::IndexedRandom};
use serde_json::{Value, json};

// ---------------------------------------------------------------------------------------------
// random driver
// ---------------------------------------------------------------------------------------------
pub const USER_CIDS: [&str; 2] = ["c1", "c2"];

pub fn no_filter() -> Value {
    json!({"k": "None", "set": []})
}

pub fn ev(a: &str, ex: i64, inst: i64, cid: &str, kind: &str, side: &str, qty: i64, ok: bool, to: &str, reqs: Vec<Value>, filter: Value) -> Value {
    json!({"a": a, "ex": ex, "inst": inst, "cid": cid, "kind": kind, "side": side, "qty": qty, "ok": ok, "to": to, "reqs": reqs, "filter": filter})
}

pub fn open_r(rng: &mut StdRng, inst: i64, cid: &str, unknown_ex: bool) -> Value {
    let ex = if unknown_ex { world2::UNKNOWN_EX } else { world2::EX_OF[inst as usize] as i64 };
    json!({"k": "open", "ex": ex, "inst": inst, "cid": cid, "side": if rng.random_bool(0.5) { "buy" } else { "sell" }, "qty": rng.random_range(1..=3), "hasId": false})
}
pub fn cancel_r(rng: &mut StdRng, inst: i64, cid: &str, unknown_ex: bool) -> Value {
    let ex = if unknown_ex { world2::UNKNOWN_EX } else { world2::EX_OF[inst as usize] as i64 };
    json!({"k": "cancel", "ex": ex, "inst": inst, "cid": cid, "side": "-", "qty": 0, "hasId": rng.random_bool(0.5)})
}

/// a batch of requests with pairwise distinct (instrument, cid)
pub fn batch(rng: &mut StdRng, open: bool, max: usize) -> Vec<Value> {
    let mut keys: Vec<(i64, &str)> = vec![];
    for i in 0..world2::N_INST as i64 {
        for c in USER_CIDS {
            keys.push((i, c));
        }
    }
    let n = rng.random_range(1..=max);
    let mut out = vec![];
    for _ in 0..n {
        let k = keys.swap_remove(rng.random_range(0..keys.len()));
        let unknown = rng.random_range(0..12) == 0;
        out.push(if open { open_r(rng, k.0, k.1, unknown) } else { cancel_r(rng, k.0, k.1, unknown) });
    }
    out
}

pub fn random_filter(rng: &mut StdRng) -> Value {
    let subset = |rng: &mut StdRng, n: i64| -> Vec<i64> {
        loop {
            let s: Vec<i64> = (0..n).filter(|_| rng.random_bool(0.5)).collect();
            if !s.is_empty() {
                return s;
            }
        }
    };
    // a filter may name the same exchange / instrument / underlying more than once: it denotes the same set
    let subset = |rng: &mut StdRng, n: i64| -> Vec<i64> {
        // a filter built from an empty collection denotes the empty scope (not "no filter")
        if rng.random_range(0..8) == 0 {
            return vec![];
        }
        let mut s = subset(rng, n);
        if rng.random_range(0..3) == 0 {
            let d = s[rng.random_range(0..s.len())];
            let at = rng.random_range(0..=s.len());
            s.insert(at, d);
        }
        // ... and in any order
        if rng.random_range(0..4) == 0 {
            s.reverse();
        }
        s
    };
    match rng.random_range(0..4) {
        0 => no_filter(),
        // three exchanges: the subsets include the non-adjacent {0, 2} (also as <<2, 0>>, <<0, 2, 0>> ...)
        1 => json!({"k": "Exchanges", "set": subset(rng, world2::N_EX as i64)}),
        2 => json!({"k": "Instruments", "set": subset(rng, world2::N_INST as i64)}),
        _ => json!({"k": "Underlyings", "set": subset(rng, world2::N_INST as i64)}),
    }
}

pub fn random_env(rng: &mut StdRng) -> Value {
    let mode = |rng: &mut StdRng| match rng.random_range(0..20) {
        0 => "closed",
        1 => "missing",
        2 | 3 => "unhealthy",
        _ => "healthy",
    };
    let link: Vec<&str> = (0..world2::N_EX).map(|_| mode(rng)).collect();
    let (mut algo_c, mut algo_o) = (vec![], vec![]);
    if rng.random_bool(0.4) {
        if rng.random_bool(0.5) {
            algo_c = batch(rng, false, 2);
        }
        if rng.random_bool(0.7) {
            algo_o = batch(rng, true, 2);
        }
    }
    // the risk manager's refusals may also name the close-positions id: commands bypass the risk manager, so a
    // refusal of "x" must not keep a close-positions (or any other) command from acting
    let refuse: Vec<&str> = USER_CIDS.iter().chain([CLOSE_CID].iter()).filter(|_| rng.random_range(0..6) == 0).cloned().collect();
    json!({"link": link, "algoC": algo_c, "algoO": algo_o, "refuse": refuse})
}

pub fn random_event(rng: &mut StdRng) -> Value {
    let inst = rng.random_range(0..world2::N_INST as i64);
    let ex = world2::EX_OF[inst as usize] as i64;
    let cid = *USER_CIDS.choose(rng).unwrap();
    match rng.random_range(0..100) {
        0..=8 => ev("Market", ex, inst, "", "", "-", 0, false, "-", vec![], no_filter()),
        9..=11 => ev("MarketNoPrice", ex, inst, "", "", "-", 0, false, "-", vec![], no_filter()),
        12..=15 => ev("MarketReconnecting", rng.random_range(0..world2::N_EX as i64), 0, "", "", "-", 0, false, "-", vec![], no_filter()),
        16..=19 => ev("AccountReconnecting", rng.random_range(0..world2::N_EX as i64), 0, "", "", "-", 0, false, "-", vec![], no_filter()),
        20..=31 => ev("OrderSnap", ex, inst, if rng.random_range(0..8) == 0 { CLOSE_CID } else { cid }, if rng.random_bool(0.7) { "Open" } else { "Inactive" }, "-", 0, false, "-", vec![], no_filter()),
        32..=37 => ev("CancelResp", ex, inst, cid, "", "-", 0, rng.random_bool(0.5), "-", vec![], no_filter()),
        38..=49 => ev("Trade", ex, inst, "", "", if rng.random_bool(0.5) { "buy" } else { "sell" }, rng.random_range(1..=2), false, "-", vec![], no_filter()),
        50..=52 => ev("Balance", rng.random_range(0..world2::N_EX as i64), 0, "", "", "-", rng.random_range(0..9), false, "-", vec![], no_filter()),
        53..=60 => ev("TradingState", 0, 0, "", "", "-", 0, false, if rng.random_bool(0.5) { "Enabled" } else { "Disabled" }, vec![], no_filter()),
        61..=70 => { let b = batch(rng, true, 3); ev("SendOpens", 0, 0, "", "", "-", 0, false, "-", b, no_filter()) }
        71..=78 => { let b = batch(rng, false, 3); ev("SendCancels", 0, 0, "", "", "-", 0, false, "-", b, no_filter()) }
        79..=88 => { let f = random_filter(rng); ev("CancelOrders", 0, 0, "", "", "-", 0, false, "-", vec![], f) }
        89..=95 => { let f = random_filter(rng); ev("ClosePositions", 0, 0, "", "", "-", 0, false, "-", vec![], f) }
        // the same command handled by a custom close strategy that cancels the matching instruments' resting orders first
        96..=98 => { let f = random_filter(rng); ev("ClosePositionsCF", 0, 0, "", "", "-", 0, false, "-", vec![], f) }
        _ => ev("Shutdown", 0, 0, "", "", "-", 0, false, "-", vec![], no_filter()),
    }
}

