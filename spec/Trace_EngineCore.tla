-------------------------- MODULE Trace_EngineCore --------------------------
(* Trace validation (impl -> spec) for EngineCore.  One line per call of      *)
(* Engine::process (through process_with_audit):                              *)
(*   {"a":"Reset","post":state,"seq":n}                                       *)
(*   {"a":"Step","ev":event,"env":env,"tick":tick,"dl":[[..],[..],[..]],      *)
(*    "disc":[exchange of each on-disconnect call],"post":..}                 *)
(* (dl, env.link, post.conn.ex: one entry per exchange - three; post.inst: six) *)
(* The step the specification computes from (state, event, env) is compared   *)
(* component by component with what the implementation did; the components    *)
(* that differ and the step properties (C03/C19/C14/C10) that fail on the     *)
(* OBSERVED data are recorded in `bad` as <<line, tags>>, the observed state   *)
(* is adopted, and validation continues.                                      *)
EXTENDS EngineCore, Json, IOUtils

Rec == ndJsonDeserialize(IOEnv.TRACE)

VARIABLES l, bad
tvars == <<st, seq, tick, dl, last, l, bad>>

NormInst(p) == [orders |-> [c \in CIDS |-> p.orders[c]], net |-> p.net, priced |-> p.priced]
NormSt(p) == [trading |-> p.trading,
              conn |-> [global |-> p.conn.global,
                        ex |-> [e \in 1..NEX |-> [market |-> p.conn.ex[e].market, account |-> p.conn.ex[e].account]]],
              inst |-> [i \in 1..NI |-> NormInst(p.inst[i])]]
NormOut(o) == Out(o.k, ToSet(o.sentO), ToSet(o.sentC), ToSet(o.errO), ToSet(o.errC), ToSet(o.refO), ToSet(o.refC), o.ex)
NoDup(o) == /\ Len(o.sentO) = Cardinality(ToSet(o.sentO)) /\ Len(o.sentC) = Cardinality(ToSet(o.sentC))
            /\ Len(o.errO) = Cardinality(ToSet(o.errO)) /\ Len(o.errC) = Cardinality(ToSet(o.errC))
            /\ Len(o.refO) = Cardinality(ToSet(o.refO)) /\ Len(o.refC) = Cardinality(ToSet(o.refC))
NormTick(t) == [seq |-> t.seq, terminal |-> t.terminal, errs |-> t.errs,
                outputs |-> [j \in 1..Len(t.outputs) |-> NormOut(t.outputs[j])]]
NormDl(d) == [e \in 1..NEX |-> ToSet(d[e])]
EvOf(e) == Ev(e.a, e.ex, e.inst, e.cid, e.kind, e.side, e.qty, e.ok, e.to, e.reqs, e.filter)
EnvOf(e) == Env(e.link, e.algoC, e.algoO, e.refuse)

TInit == /\ l = 1 /\ bad = <<>>
         /\ st = StInit("Disabled") /\ seq = 0 /\ tick = NoTick
         /\ dl = [e \in 1..NEX |-> {}]
         /\ last = [ev |-> NoEvent, env |-> NoEnv]

TReset == /\ Rec[l].a = "Reset"
          /\ st' = NormSt(Rec[l].post)
          /\ seq' = Rec[l].seq
          /\ tick' = NoTick
          /\ dl' = [e \in 1..NEX |-> {}]
          /\ last' = [ev |-> [NoEvent EXCEPT !.a = "Reset"], env |-> NoEnv]
          /\ UNCHANGED bad

\* components in which the implementation differs from the specification's step
Diff(r, post, t, d, rawT, rawD) ==
     (IF post.trading # r.st.trading THEN {"trading"} ELSE {})
  \cup (IF post.conn # r.st.conn THEN {"conn"} ELSE {})
  \cup (IF \E i \in 1..NI : post.inst[i].orders # r.st.inst[i].orders THEN {"orders"} ELSE {})
  \cup (IF \E i \in 1..NI : post.inst[i].net # r.st.inst[i].net THEN {"net"} ELSE {})
  \cup (IF \E i \in 1..NI : post.inst[i].priced # r.st.inst[i].priced THEN {"priced"} ELSE {})
  \cup (IF t.seq # seq THEN {"tick_seq"} ELSE {})
  \cup (IF t.terminal # r.tick.terminal \/ t.errs # r.tick.errs THEN {"tick_flags"} ELSE {})
  \cup (IF t.outputs # r.tick.outputs \/ \E j \in 1..Len(rawT.outputs) : ~NoDup(rawT.outputs[j]) THEN {"tick_outputs"} ELSE {})
  \cup (IF d # r.dl \/ \E e \in 1..NEX : Len(rawD[e]) # r.dln[e] THEN {"dl"} ELSE {})

\* C14: each disconnect notice invokes the on-disconnect strategy exactly once, for that exchange
HookTags(ev, disc) ==
  IF disc = (IF ev.a \in {"MarketReconnecting", "AccountReconnecting"} THEN <<ev.ex>> ELSE <<>>) THEN {} ELSE {"on_disconnect_calls"}

\* number of deliveries = number of requests reported sent (multiset side of SentDelivered)
RECURSIVE SumLen(_, _)
SumLen(f, n) == IF n = 0 THEN 0 ELSE f[n] + SumLen(f, n - 1)
CountOK(rawT, rawD) ==
  rawT.errs > 0 \/
  SumLen([e \in 1..NEX |-> Len(rawD[e])], NEX)
    = SumLen([j \in 1..Len(rawT.outputs) |-> Len(rawT.outputs[j].sentO) + Len(rawT.outputs[j].sentC)], Len(rawT.outputs))

\* step properties evaluated on the observed step
PropTags ==
     (IF SentDeliveredA THEN {} ELSE {"P:SentDelivered"})
  \cup (IF SentInFlightA THEN {} ELSE {"P:SentInFlight"})
  \cup (IF FailedNeitherA THEN {} ELSE {"P:FailedNeither"})
  \cup (IF NoPhantomInFlightA THEN {} ELSE {"P:NoPhantomInFlight"})
  \cup (IF DisabledSilentA THEN {} ELSE {"P:DisabledSilent"})
  \cup (IF ScopeA THEN {} ELSE {"P:Scope"})
  \cup (IF ConnStepA THEN {} ELSE {"P:ConnStep"})
  \cup (IF (st'.conn.global = "Healthy") <=> AllHealthy(st'.conn.ex) THEN {} ELSE {"P:ConnIff"})

TStep == /\ Rec[l].a = "Step"
         /\ LET ev == EvOf(Rec[l].ev) env == EnvOf(Rec[l].env)
                r == Step(st, ev, env)                       \* the specification's step
                post == NormSt(Rec[l].post) t == NormTick(Rec[l].tick) d == NormDl(Rec[l].dl)
            IN /\ st' = post
               /\ tick' = t
               /\ dl' = d
               /\ seq' = t.seq + 1
               /\ last' = [ev |-> ev, env |-> env]
               /\ LET tags == Diff(r, post, t, d, Rec[l].tick, Rec[l].dl) \cup PropTags \cup HookTags(ev, Rec[l].disc)
                              \cup (IF CountOK(Rec[l].tick, Rec[l].dl) THEN {} ELSE {"P:SentDelivered"})
                  IN bad' = IF tags = {} THEN bad ELSE Append(bad, <<l, tags>>)

TNext == /\ l <= Len(Rec)
         /\ l' = l + 1
         /\ (TReset \/ TStep)

TSpec == TInit /\ [][TNext]_tvars

Done == l = Len(Rec) + 1 => PrintT(<<"TRACE_END", ToJson(bad)>>)
Post == PrintT(<<"TRACE_DONE", TLCGet("stats").diameter, Len(Rec)>>)
=============================================================================
