SPECIFICATION Spec
CONSTANTS
  INSTR = {"i1"}
  PRICE = {1, 2}
  AMOUNT = {0, 1, 2}
  RULES = {"Spot", "Futures"}
  MCM = 4
  EVOLUTIONS <- TwoEvolutions
  MaxEvents = 3
  MaxDeliver = 1
  MaxReinit = 0
  EXPECTED = {1, 2}
  MaxBuf = 2
  InitOrder = "buffered-first"
INVARIANTS BookValid
VIEW View
CHECK_DEADLOCK FALSE
