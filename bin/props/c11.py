"""C11 - instrument/asset/exchange indices are dense, unique and consistently resolved
(spec/Indexing.tla: AddInstrument, Build; invariants Dense Unique Inverse Resolve OrderFree Sorted
Aligned).  Shared pipeline: props/indexing.py, FOCUS = C11."""
from props import indexing

MODULE = "Indexing"
META = {
    "level_note": "Trusted: TLC, the projection and concretisation in harness/src/idx_shared.rs (exchanges 1..4 = "
                  "Mock, BinanceSpot, Kraken, Okx in ExchangeId's declaration order; asset and instrument names as "
                  "order-preserving strings; an index of the spec is a position, the implementation's index + 1), the "
                  "environment assumptions in the evidence file. The verdict never calls the index->name look-ups of "
                  "ExecutionInstrumentMap (C04).",
}
ASSUMPTIONS = [
    "internal instrument names need NOT be unique (spot and perpetual of one underlying may share one): position = index, index -> entity, "
    "Dense, Unique, Resolve, OrderFree and Sorted are judged on every collection and insertion order; a look-up by an internal name that "
    "several instruments of the exchange bear may return any of them; the alignment of InstrumentStates (keyed by the internal name alone, "
    "as documented) is judged only on collections whose internal names are distinct",
    "an asset has one exchange name per exchange (Asset = internal + exchange name; the builder looks assets up by internal name)",
    "mock execution links are only put on exchanges whose instruments are all spot (MockExchange supports nothing else); the linked subset ranges over all subsets of those",
    "abstract exchanges / names are concretised order-preservingly (ExchangeId by declaration order, names as strings)",
]


def check(ctx):
    return indexing.check(ctx, "C11", "c11", "MC_Indexing_C11.cfg" if ctx.quick else "MC_Indexing_C11_thorough.cfg", ASSUMPTIONS)


def replay(ctx, rp):
    return indexing.replay(ctx, rp, "C11", "c11")
