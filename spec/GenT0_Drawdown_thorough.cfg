SPECIFICATION GSpec
CONSTANTS
  Values = {0, 1, 2, 3}
  NegMag = {2}
  Gaps = {0, 1}
  MaxLen = 4
  MaxResets = 0
INVARIANT Emit
CHECK_DEADLOCK FALSE
