SPECIFICATION Spec
CONSTANTS
  Values = {1, 2, 3, 4}
  Gaps = {2}
  MaxLen = 7
INVARIANTS TypeOK RunIsRef PeakToTrough Recovery OnePerPeak NoneIffMonotone MaxIsLargest ClassicMDD
CHECK_DEADLOCK FALSE
