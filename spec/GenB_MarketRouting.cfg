SPECIFICATION GSpecR
CONSTANTS
  NMarkets = 5
  Conns <- GenConns
  KeyOffs = {0, 1, 2, 3, 4}
  PRICE = {2, 6, 10}
  AMOUNT = {1, 5, 9}
  TIME = {0, 1, 2, 3}
  DupKinds = {0, 1, 2}
  MaxBatch = 1
  MaxLen = 24
INVARIANT Emit
CHECK_DEADLOCK FALSE
