--------------------------- MODULE Trace_Reconnect ---------------------------
(* Trace validation (impl -> spec) for C12: every line recorded while the real                  *)
(* `init_market_stream` chain consumed a scripted exchange must be a step of Reconnect.         *)
(*   {"a":"Reset", mode, pol, script}     a new scenario: the input of the spec                 *)
(*   {"a":"ResetWire", mode, pol, wire}   a new WIRE-LEVEL scenario: per connection the frames the   *)
(*                                        loopback exchange sends; the spec's script is            *)
(*                                        Wire!WireScript(wire) (every connection initialises, its *)
(*                                        body = the frames after the first confirmation, in       *)
(*                                        order); real clock, so every `at` is 0 (timing is not    *)
(*                                        observed at the wire level) and the observation is cut   *)
(*                                        after the last scripted connection's notice (Stop "cut") *)
(*   {"a":"InitCall","at":t}              init was called at t (logged by the init closure)     *)
(*   {"a":"Wait","at":t}                  init is called again after a failed call, at t: the   *)
(*                                        back-off sleep is over                                *)
(*   {"a":"Emit","k":Item|Err|Notice,"v","via":stream|handler,"at":t}   the consumer / the      *)
(*                                        error handler received this at t                      *)
(*   {"a":"Stop","k":quiet|nostream|ended|runaway|panic}   how the observation ended            *)
(* One line = one action of the spec (the spec's own action conjoined with the logged data).    *)
(* The instants of InitCall and Wait must be exactly the spec's (`now`, `wake`): that is the     *)
(* back-off law; the instant of a delivery may be any t >= its availability (see Reconnect).    *)
(* A line that is no step of the spec is recorded in `bad`; the rest of that scenario is        *)
(* skipped (the log carries no state to resynchronise on).                                      *)
EXTENDS Reconnect, Wire, Json, IOUtils

Rec == ndJsonDeserialize(IOEnv.TRACE)

VARIABLES l, bad, rej
tvars == <<vars, l, bad, rej>>

R == Rec[l]

TInit == /\ l = 1 /\ bad = <<>> /\ rej = TRUE
         /\ script = <<>> /\ policy = [b0 |-> 0, mult |-> 1, max |-> 0] /\ mode = "stream"
         /\ phase = "Init" /\ pos = 0 /\ k = 0 /\ cur = 0 /\ fails = 0
         /\ now = 0 /\ wake = 0 /\ out = <<>> /\ calls = <<>> /\ waits = <<>>

\* Init of the spec, for the logged input
TReset == /\ R.a = "Reset"
          /\ script' = R.script /\ policy' = R.pol /\ mode' = R.mode
          /\ phase' = "Init" /\ pos' = 0 /\ k' = 0
          /\ cur' = R.pol.b0 /\ fails' = 0
          /\ now' = 0 /\ wake' = 0
          /\ out' = <<>> /\ calls' = <<>> /\ waits' = <<>>
          /\ rej' = FALSE
          /\ UNCHANGED bad

TResetWire == /\ R.a = "ResetWire"
              /\ script' = WireScript(R.wire) /\ policy' = R.pol /\ mode' = R.mode
              /\ phase' = "Init" /\ pos' = 0 /\ k' = 0
              /\ cur' = R.pol.b0 /\ fails' = 0
              /\ now' = 0 /\ wake' = 0
              /\ out' = <<>> /\ calls' = <<>> /\ waits' = <<>>
              /\ rej' = FALSE
              /\ UNCHANGED bad

IsReset == R.a \in {"Reset", "ResetWire"}

TCall == /\ R.a = "InitCall" /\ R.at = now
         /\ (FirstInitFail \/ InitOk \/ InitFail \/ InitPend)

TWait == /\ R.a = "Wait" /\ R.at = wake
         /\ WaitElapsed

TEmit == /\ R.a = "Emit"
         /\ \/ R.k = "Item" /\ EmitItem(R.at)
            \/ R.k = "Err" /\ NonTerminalErr(R.at)
            \/ R.k = "Notice" /\ (TerminalErr(R.at) \/ End(R.at))
         /\ Last(out').k = R.k /\ Last(out').v = R.v /\ Last(out').via = R.via

\* how the observation ended: only the two quiescent situations of the spec are acceptable, in
\* particular the stream must not have ended ("ended") - NeverEnds
TStop == /\ R.a = "Stop"
         /\ \/ R.k = "quiet" /\ phase = "Pend"
            \/ R.k = "nostream" /\ phase = "NoStream"
            \/ R.k = "cut" /\ phase = "Init" /\ pos = Len(script)    \* everything scripted was delivered
         /\ UNCHANGED vars

Accept == (TCall \/ TWait \/ TEmit \/ TStop) /\ UNCHANGED <<l, bad, rej>>

TStepOK  == /\ ~rej /\ ~IsReset
            /\ (TCall \/ TWait \/ TEmit \/ TStop)
            /\ UNCHANGED <<bad, rej>>
TStepBad == /\ ~rej /\ ~IsReset
            /\ ~ENABLED Accept
            /\ bad' = Append(bad, l) /\ rej' = TRUE
            /\ UNCHANGED vars
TSkip    == /\ rej /\ ~IsReset
            /\ UNCHANGED <<vars, bad, rej>>

TNext == /\ l <= Len(Rec)
         /\ l' = l + 1
         /\ (TReset \/ TResetWire \/ TStepOK \/ TStepBad \/ TSkip)

TSpec == TInit /\ [][TNext]_tvars

\* the C12 formulas on the implementation's own behaviour (scripts beyond the model-checked bound)
TInv == rej \/ ( /\ TypeOK /\ Conserve /\ Ordered /\ OneNotice /\ ErrPassThrough /\ FailedSilent /\ Causal
                 /\ BackoffClosedForm /\ BackoffTimes /\ WaitsClosedForm
                 /\ FirstFailure /\ NoStreamSilent /\ Exhausted )

Done == l = Len(Rec) + 1 => PrintT(<<"TRACE_END", ToJson(bad)>>)
Post == PrintT(<<"TRACE_DONE", TLCGet("stats").diameter, Len(Rec)>>)
=============================================================================
