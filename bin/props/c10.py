"""C10 - the audit stream is gap-free and sufficient to replicate engine state
(spec/Audit.tla; the per-step sequence numbering is also checked on spec/EngineCore.tla traces)."""
import json
from props import enginecore

MODULE = "Audit"
META = {"spec": ["Audit", "EngineCore", "SystemLifecycle"]}
ASSUMPTIONS = [
    "client order ids are not reused while tracked (a duplicate id makes the engine overwrite a confirmed order with an in-flight marker, which no audit record carries)",
    "order reports carry the request's own side/price/quantity (as the execution manager produces them)",
    "StateReplicaManager's validation is private: 'after every record' is observed by running the real run() on every prefix of the delivered stream",
    "equality is exact (derived PartialEq) on trading state, connectivity, balances, positions, market data and tear-sheet generators; orders are compared once OpenInFlight / CancelInFlight(None) markers are set aside and CancelInFlight(Some(open)) is read as Open",
]


def anomaly(line):
    return line.get("anomaly")


def validate_audit(ctx, trace_path, label):
    lines = ctx.read_trace(trace_path)
    clean = ctx.path("clean_" + label + ".ndjson")
    found, keep = ctx.screen_anomalies(lines, clean, anomaly, reset_value="Snapshot")
    for n, d, seg in found:
        ctx.violation("anomaly:" + d.split(":")[0][:60], "%s [%s line %d]" % (d, label, n), {"note": "re-run with the same seed", "segment_head": seg[0]})
    n, bad, _ = ctx.tlc_trace("Trace_Audit", "Trace_Audit.cfg", clean)
    for b in bad:
        line = keep[b - 1]
        tags = ctx.last_tags.get(b, ["unconsumed"])
        # find the run header
        j = b - 1
        while j > 0 and keep[j].get("a") != "Snapshot":
            j -= 1
        head = keep[j]
        sig = "%s:%s:%s" % (line.get("a"), "+".join(tags), head.get("runner"))
        desc = "audit/replica step %s is not a step of Audit.tla: %s (run: %s) [%s line %d]" % (
            json.dumps(line), tags, json.dumps(head), label, b)
        ctx.violation(sig, desc, {"seed": ctx.seed, "label": label, "line": line, "run": head})
    ctx.cov["traces_validated_against_impl"] += sum(1 for l in keep if l.get("a") in ("Snapshot", "NewReplica"))
    return n


def run_audit(ctx, seed, histories, events, label):
    out = ctx.path("trace_%s.ndjson" % label)
    info = ctx.harness("c10", "record", "--seed", seed, "--histories", histories, "--events", events, "--out", out)
    validate_audit(ctx, out, label)
    return info


def check(ctx):
    ctx.assumptions += ASSUMPTIONS + enginecore.ASSUMPTIONS
    ctx.build("c10", "engine")
    ctx.tlc_mc("Audit", "MC_Audit.cfg" if ctx.quick else "MC_Audit_thorough.cfg", timeout=1200)
    info = run_audit(ctx, ctx.seed, 72 if ctx.quick else 720, 40 if ctx.quick else 70, "audit")
    ctx.sample({"kind": "recorded audit/replica run (harness c10 record)", "summary": info})
    # the System lifecycle (spec/SystemLifecycle.tla): take_audit is Some exactly once iff auditing is enabled, its snapshot
    # precedes the first event, the records it delivers are gap-free and end with the Shutdown record, a dropped receiver does
    # not stop the engine (signatures "lifecycle:audit_..." / "lifecycle:final_record" / "lifecycle:after_shutdown")
    from props import lifecycle
    n_before = len(ctx.violations)
    lifecycle.run(ctx, lifecycle.C10_TAGS)
    if len(ctx.violations) > n_before:     # report it now: a tool error in a later stage must not hide this verdict
        return ctx.finish()
    # sequence numbering of process_with_audit on the EngineCore traces (tag tick_seq only)
    p_b, scn_b = ctx.tlc_gen("Gen_EngineCore", "Gen_EngineCore.cfg", "behaviours.ndjson", simulate=(300 if ctx.quick else 3000, 40), timeout=900)
    ctx.sample({"kind": "TLC simulated EngineCore behaviour", "scenario": scn_b[0]})
    out = ctx.path("trace_behaviours.ndjson")
    ctx.harness("engine", "run", "--scenarios", p_b, "--out", out)
    enginecore.validate(ctx, out, "behaviours")
    ctx.cov["scenarios_replayed"] += len(scn_b)
    out = ctx.path("trace_random.ndjson")
    ctx.harness("engine", "random", "--seed", ctx.seed, "--steps", 4000 if ctx.quick else 60000, "--out", out)
    enginecore.validate(ctx, out, "random")
    return ctx.finish()


def replay(ctx, rp):
    if rp.get("kind") == "lifecycle":
        from props import lifecycle
        return lifecycle.replay(ctx, rp, lifecycle.C10_TAGS)
    if "scenario" in rp:
        return enginecore.replay(ctx, rp)
    ctx.build("c10")
    run_audit(ctx, rp.get("seed", ctx.seed), 72, 40, "replay")
    return ctx.finish(write_evidence=False)
