SPECIFICATION Spec
CONSTANTS
  MaxOutcomes = 5
  MaxBody = 3
  MaxElems = 3
  Lats = {0}
  Gaps = {0}
  Slack = {0}
  Policies <- PoliciesB
  Modes <- ModesAll
INVARIANTS TypeOK Conserve Ordered OneNotice ErrPassThrough FailedSilent Causal
  BackoffClosedForm BackoffTimes WaitsClosedForm FirstFailure NoStreamSilent Exhausted
PROPERTIES NeverEnds Progress
CHECK_DEADLOCK FALSE
