SPECIFICATION Spec
CONSTANTS
  Values = {1, 2, 3, 4}
  NegMag = {2}
  Gaps = {2}
  MaxLen = 6
  MaxResets = 1
INVARIANTS TypeOK RunIsRef ReadIsCurrent ResetIsInit PeakToTrough Recovery OnePerPeak NoneIffMonotone MaxIsLargest ClassicMDD
PROPERTIES ReadingIsPure PersistIsStutter
CHECK_DEADLOCK FALSE
VIEW View
