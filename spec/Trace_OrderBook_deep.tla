------------------------ MODULE Trace_OrderBook_deep ------------------------
(* Trace validation (impl -> spec) for C05 on DEEP books: more than a        *)
(* thousand levels per side (a venue's full depth), where nothing about the  *)
(* number of levels may matter: the book is still exactly the price ->       *)
(* amount map.  Same line format as Trace_OrderBook ("Reset" / "Update" /     *)
(* "Snapshot", direct mode only).  The step is OrderBook's own Update /       *)
(* Snapshot action; the logged view is compared with the resulting map in     *)
(* time linear in the number of levels: a strictly ordered vector with the    *)
(* map's price set and the map's amounts IS Levels(map) - the recursive       *)
(* Levels / Depth operators of OrderBook are cubic in TLC and are not         *)
(* evaluated here; the depth-limited views are prefixes of the logged vector. *)
EXTENDS OrderBook, Json, IOUtils
CONSTANT Large

Rec == ndJsonDeserialize(IOEnv.TRACE)
DeepPrices == 1..3000

VARIABLES l, bad
tvars == <<bids, asks, seq, last, l, bad>>

ViewOK(p, b) ==
  /\ StrictVector(p.bids, "bids") /\ StrictVector(p.asks, "asks")
  /\ VectorIsMap(p.bids, b.bids) /\ VectorIsMap(p.asks, b.asks)
  /\ p.seq = b.seq
  /\ \A dk \in {<<0, p.d0>>, <<1, p.d1>>, <<2, p.d2>>, <<Large, p.dL>>} :
        /\ dk[2].bids = Take(p.bids, dk[1]) /\ dk[2].asks = Take(p.asks, dk[1]) /\ dk[2].seq = p.seq
  /\ (p.bids # << >> /\ p.asks # << >>) => p.mid2 = p.bids[1].p + p.asks[1].p

Adopt(p) == bids' = MapOfList(p.bids) /\ asks' = MapOfList(p.asks) /\ seq' = p.seq

TInit == l = 1 /\ bad = << >> /\ Init

TReset == /\ Rec[l].a = "Reset"
          /\ Adopt(Rec[l].post)
          /\ last' = Ev("Reset", << >>, << >>, Rec[l].s)
          /\ bad' = IF /\ StrictVector(Rec[l].post.bids, "bids") /\ StrictVector(Rec[l].post.asks, "asks")
                       /\ PricesOf(Rec[l].post.bids) = PricesOf(Rec[l].bl) /\ PricesOf(Rec[l].post.asks) = PricesOf(Rec[l].al)
                    THEN bad ELSE Append(bad, l)

TUpdate == /\ Rec[l].a = "Update"
           /\ Update(Rec[l].bl, Rec[l].al, Rec[l].s)             \* the spec's own action
           /\ ViewOK(Rec[l].post, Book')
           /\ UNCHANGED bad

TSnapshot == /\ Rec[l].a = "Snapshot"
             /\ Snapshot(Rec[l].bl, Rec[l].al, Rec[l].s)         \* the spec's own action
             /\ ViewOK(Rec[l].post, Book')
             /\ UNCHANGED bad

StepOK(r) ==
  CASE r.a = "Update"   -> \E b \in UpdateResults(Book, r.bl, r.al, r.s) : ViewOK(r.post, b)
    [] r.a = "Snapshot" -> CleanList(r.bl) /\ CleanList(r.al) /\ ViewOK(r.post, SnapshotResult(r.bl, r.al, r.s))
    [] OTHER            -> FALSE

TStepBad == /\ Rec[l].a # "Reset"
            /\ ~StepOK(Rec[l])
            /\ Adopt(Rec[l].post)
            /\ last' = Ev(Rec[l].a, Rec[l].bl, Rec[l].al, Rec[l].s)
            /\ bad' = Append(bad, l)

TNext == /\ l <= Len(Rec)
         /\ l' = l + 1
         /\ (TReset \/ TUpdate \/ TSnapshot \/ TStepBad)

TSpec == TInit /\ [][TNext]_tvars

Done == l = Len(Rec) + 1 => PrintT(<<"TRACE_END", ToJson(bad)>>)
Post == PrintT(<<"TRACE_DONE", TLCGet("stats").diameter, Len(Rec)>>)
=============================================================================
