SPECIFICATION TSpec
CONSTANTS
  ITEMS = {"bal_btc", "bal_eth", "bal_usdt"}
  TIMES = {1}
  VALUES = {1}
INVARIANT Done
POSTCONDITION Post
CHECK_DEADLOCK FALSE
