SPECIFICATION Spec
CONSTANTS
  MaxFrames = 5
  MaxTrades = 3
  Needs = {2}
INVARIANTS WireConserve WireNothingLost WireComplete
PROPERTIES WireEnds
CHECK_DEADLOCK FALSE
