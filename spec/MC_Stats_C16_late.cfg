SPECIFICATION SpecC16R
CONSTANTS
  Instr = {"i0"}
  Asset = {}
  PnLs <- PnLsLate
  Costs = {10}
  Bals = {}
  Vals = {}
  MaxClosed = 3
  MaxBal = 0
  MaxVals = 0
  Gaps <- GapsSheet
  RFs <- RFsZero
  Ivs = {"Daily"}
INVARIANTS TypeC16 GenerateIsBatch AccSheet AccReturns WinRateSane ProfitFactorSane OrderFreeC16 OrderFreeReturns TimeFreeC16 MonotoneDetermined
PROPERTIES Keyed Additive PersistIsStutter ResetIsFresh
CHECK_DEADLOCK FALSE
VIEW View
