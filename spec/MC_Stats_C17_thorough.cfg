SPECIFICATION SpecC17
CONSTANTS
  Instr = {}
  Asset = {}
  PnLs = {}
  Costs = {}
  Bals = {}
  Vals <- ValsThorough
  MaxClosed = 0
  MaxBal = 0
  MaxVals = 6
  Gaps = {}
  RFs = {}
  Ivs = {}
INVARIANTS TypeC17 VarNonNeg MeanInRange OrderFreeC17 VarAlt VarZeroIffConstant ShiftScale WelfordExact LossesAreSubset
PROPERTIES PersistIsStutter
CHECK_DEADLOCK FALSE
VIEW View
