SPECIFICATION TSpec
CONSTANTS
  HANDLES = {1, 2, 3, 4, 5, 6}
  TIMES <- TraceTimes
  MAXWALL = 0
  ITEMLISTS <- TraceItemLists
INVARIANTS Done TypeOK ExLastIsMax SharedIffCloned
POSTCONDITION Post
CHECK_DEADLOCK FALSE
