--------------------------- MODULE Trace_Indexing ---------------------------
(* Trace validation (impl -> spec) for the Indexing area.                     *)
(* One line per collection built by the real code (harness `trace`):          *)
(*   defs            the inserted definitions, in insertion order             *)
(*   panic           "none" or the panic message                              *)
(*   ex, as, ins     the projected tables of IndexedInstruments               *)
(*   sti, sta, conn  engine instrument / asset / connectivity tables by       *)
(*                   position; tx = [l, t] execution-link table for links l   *)
(*   maps            per exchange: complete look-up tables of its             *)
(*                   ExecutionInstrumentMap, the request a stub client        *)
(*                   received behind a real ExecutionManager for every        *)
(*                   instrument index (rq) and the indexed account events     *)
(*                   for every source exchange and name (ev)                  *)
(* FOCUS selects the conjuncts that decide the verdict (DESIGN 5.4):          *)
(*   "C11": the tables must be what Build yields for the logged insertions    *)
(*          (the spec's AddInstrument pushes, then Build) and the derived     *)
(*          tables must be aligned; `maps` is not looked at.                  *)
(*   "C04": the tables are taken from the log as given; `maps` must be what   *)
(*          MapFor / IndexToName / NameToIndex / OrderRequestResult /         *)
(*          IndexEventResult yield for exactly those tables.                  *)
(* A rejected line is recorded in `bad` together with the tags of the failed  *)
(* conjuncts; the logged tables are adopted and                               *)
(* the C11 / C04 formulas of Indexing are evaluated on every accepted line.   *)
EXTENDS Indexing, Json, IOUtils

CONSTANT FOCUS

Rec == ndJsonDeserialize(IOEnv.TRACE)

VARIABLES l, bad
tvars == <<defs, bx, ba, built, tables, last, l, bad>>

\* the insertions of the log through the spec's own AddInstrument pushes
RECURSIVE PushedAssets(_, _)
PushedAssets(ds, n) == IF n = 0 THEN <<>> ELSE PushedAssets(ds, n - 1) \o AssetsOfDef(ds[n])
PushedExchanges(ds) == [k \in DOMAIN ds |-> ds[k].ex]
BuildOf(ds) == BuildFromSets(Range(PushedExchanges(ds)), Range(PushedAssets(ds, Len(ds))), Range(ds))

Logged(r) == [ex |-> r.ex, as |-> r.as, ins |-> r.ins]

\* every conjunct carries a tag; Why = the tags of the conjuncts a line fails
Tag(ok, t) == IF ok THEN {} ELSE {t}

Why_C11(r) ==
    LET T == BuildOf(r.defs) IN
    IF r.panic # "none" THEN {"panic"} ELSE
    Tag(r.ex = T.ex, "tables:exchanges") \cup Tag(r.as = T.as, "tables:assets") \cup Tag(r.ins = T.ins, "tables:instruments")
    \* (InstrumentStates is keyed by the internal name alone: claimed when those are distinct)
    \cup Tag(InternalNamesDistinct(Range(r.defs)) =>
              r.sti = [p \in DOMAIN InstrumentStates(T) |->
                  [ni |-> InstrumentStates(T)[p][1], key |-> InstrumentStates(T)[p][2].key,
                   id |-> InstrumentStates(T)[p][2].id, ok |-> TRUE]], "aligned:instrument_states")
    \cup Tag(r.sta = [p \in DOMAIN AssetStates(T) |->
                  [ex |-> AssetStates(T)[p][1][1], a |-> AssetStates(T)[p][1][2],
                   nx |-> AssetStates(T)[p][2].nx, ok |-> TRUE]], "aligned:asset_states")
    \cup Tag(r.conn = [p \in DOMAIN Connectivity(T) |-> Connectivity(T)[p][1]], "aligned:connectivity")
    \cup LET L == Range(r.tx.l) IN
         Tag(r.tx.t = [p \in DOMAIN ExecTx(T, L) |-> [ex |-> ExecTx(T, L)[p][1], k |-> ExecTx(T, L)[p][2]]],
             "aligned:execution_tx_map")

Kinds == <<"balance", "order", "trade", "cancel">>

WhyMap(T, m) ==
    LET e  == m.e
        sm == MapFor(T, e)
        c  == IF sm.xk = 1 THEN ":first-exchange" ELSE ":later-exchange"
    IN
    Tag(m.xk = sm.xk, "map.exchange" \o c)
    \cup Tag(Len(m.an) = Len(sm.as) /\ Range(m.an) = {sm.as[j][2] : j \in DOMAIN sm.as}, "map.exchange_assets" \o c)
    \cup Tag(Range(m.inn) = {sm.ins[j][2] : j \in DOMAIN sm.ins}, "map.exchange_instruments" \o c)
    \cup Tag(m.ia = [p \in 1..(Len(T.as) + 1)  |-> AssetIndexToName(T, e, p)], "find_asset_name_exchange" \o c)
    \* (instrument look-ups: membership in the spec's sets - singletons wherever the name is unique)
    \cup Tag(Len(m.ii) = Len(T.ins) + 1 /\ \A p \in DOMAIN m.ii : m.ii[p] \in IndexToNameSet(sm.ins, p),
             "find_instrument_name_exchange" \o c)
    \cup Tag(m.na = [n \in DOMAIN m.na |-> AssetNameToIndex(T, e, n)], "find_asset_index" \o c)
    \cup Tag(\A n \in DOMAIN m.ni : m.ni[n] \in NameToIndexSet(sm.ins, n), "find_instrument_index" \o c)
    \* Outbound, end to end: the manager of e is handed (own exchange index, instrument i)
    \* (the client answers for the name it was addressed with; the answer is indexed back)
    \cup Tag(Len(m.rq) = Len(T.ins) + 1 /\ \A i \in DOMAIN m.rq :
                 m.rq[i] \in UNION {IF q.ok THEN {[ok |-> TRUE, re |-> q.e, rn |-> q.n, back |-> b] : b \in NameToIndexSet(sm.ins, q.n)}
                                             ELSE {[ok |-> FALSE, re |-> 0, rn |-> 0, back |-> 0]}
                                    : q \in OrderRequestResults(T, e, sm.xk, i)}, "manager" \o c)
    \* Inbound: events of every exchange of the collection, naming every name
    \cup UNION {Tag(Len(m.ev[k]) = Len(T.ex) /\ \A f \in DOMAIN m.ev[k] : \A n \in DOMAIN m.ev[k][f] :
                       m.ev[k][f][n] \in {<<q.x, q.i>> : q \in IndexEventResults(T, e, Kinds[k], T.ex[f], n)},
                    "account_event:" \o Kinds[k] \o c) : k \in DOMAIN Kinds}

Why_C04(r) ==
    IF r.panic # "none" THEN {"panic"} ELSE
    IF Len(r.maps) # Len(r.ex) \/ \E k \in DOMAIN r.maps : r.maps[k].e # r.ex[k] THEN {"maps"} ELSE
    UNION {WhyMap(Logged(r), r.maps[k]) : k \in DOMAIN r.maps}

Why(r) == IF FOCUS = "C11" THEN Why_C11(r) ELSE Why_C04(r)

TInit == /\ l = 1 /\ bad = <<>>
         /\ defs = <<>> /\ bx = <<>> /\ ba = <<>> /\ built = FALSE /\ tables = NoTables /\ last = NoCall

TNext == /\ l <= Len(Rec)
         /\ l' = l + 1
         /\ defs' = Rec[l].defs
         /\ bx' = PushedExchanges(Rec[l].defs)
         /\ ba' = PushedAssets(Rec[l].defs, Len(Rec[l].defs))
         /\ built' = TRUE
         /\ tables' = Logged(Rec[l])
         /\ last' = NoCall
         /\ bad' = IF Why(Rec[l]) = {} THEN bad ELSE Append(bad, <<l, Why(Rec[l])>>)

TSpec == TInit /\ [][TNext]_tvars

\* the formulas of Indexing on the implementation's tables, for every accepted line
Accepted == l > 1 /\ (bad = <<>> \/ bad[Len(bad)][1] # l - 1)
TInv == Accepted => IF FOCUS = "C11"
                    THEN Dense /\ Unique /\ Resolve /\ OrderFree /\ Sorted /\ Aligned
                    ELSE RoundTrip /\ OnlyOwn

Done == l = Len(Rec) + 1 => PrintT(<<"TRACE_END", ToJson(bad)>>)
Post == PrintT(<<"TRACE_DONE", TLCGet("stats").diameter, Len(Rec)>>)
=============================================================================
