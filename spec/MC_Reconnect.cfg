SPECIFICATION Spec
CONSTANTS
  MaxOutcomes = 4
  MaxBody = 2
  MaxElems = 3
  Lats = {0}
  Gaps = {0}
  Slack = {0}
  Policies <- PoliciesA
  Modes <- ModesAll
INVARIANTS TypeOK Conserve Ordered OneNotice ErrPassThrough FailedSilent Causal
  BackoffClosedForm BackoffTimes WaitsClosedForm FirstFailure NoStreamSilent Exhausted
PROPERTIES NeverEnds Progress
CHECK_DEADLOCK FALSE
