--------------------------- MODULE Gen_ExecManager ---------------------------
(* Scenario generation for the C07 harness: batches of requests with the      *)
(* client's scripted behaviour, printed as JSON, one line per scenario        *)
(*   {"T":.., "shut": -1|instant, "stall": []|[from,to], "reqs":[{id,k,at,d,  *)
(*    res,inst,side,price,qty,b,fill}, ..]}                                   *)
(*   (requests with equal `at` are injected in list order; `stall`: at `from`,*)
(*    the last arrival instant, the clock jumps to `to` without the manager   *)
(*    being scheduled - the spec's Stall(to))                                 *)
(* Every request of a scenario is a script of ExecManager (IsScript), i.e. a  *)
(* value Accept may choose.                                                   *)
(*  GSpecT (exhaustive): every batch of N \in NS requests over                *)
(*         kind x arrival instant x delay class (<T, =T, >T, never) x ok/err  *)
(*         x fill class (none / partial / full); the order fields are a fixed *)
(*         function of the position so that all requests of a batch differ    *)
(*         in every attributed field.                                         *)
(*  GSpecR (simulation): N = RandomElement(NS) requests, everything drawn     *)
(*         with RandomElement, optionally a Shutdown instant.                 *)
EXTENDS ExecManager, Json
CONSTANTS NS,      \* batch sizes
          SHUT,    \* shutdown instants GSpecR draws from (values >= 9000: no shutdown)
          STALLOFF \* lengths of the stall after the last arrival (0 or >= 9000: no stall)
VARIABLES scn, n, shut, stall, done

gvars == <<now, running, req, pending, out, lagged, scn, n, shut, stall, done>>

LastArrival(sq) == CHOOSE t \in {sq[i].at : i \in 1..Len(sq)} : \A i \in 1..Len(sq) : sq[i].at <= t
StallOf(sq, o) == IF o = 0 \/ o >= 9000 THEN <<>> ELSE <<LastArrival(sq), LastArrival(sq) + o>>

\* bare choices <<kind, at, delay, result, fill class>>
Bare ==
    {<<"open", t, d, "ok", f>> : t \in ACCEPT, d \in DELAY, f \in {0, 1, 2}}
    \cup {<<"open", t, d, "err", 0>> : t \in ACCEPT, d \in DELAY}
    \cup {<<"open", t, NEVER, "none", 0>> : t \in ACCEPT}
    \cup {<<"cancel", t, d, res, 0>> : t \in ACCEPT, d \in DELAY, res \in {"ok", "err"}}
    \cup {<<"cancel", t, NEVER, "none", 0>> : t \in ACCEPT}

Elem(S, i) == CHOOSE x \in S : Cardinality({y \in S : y < x}) = (i % Cardinality(S))
ElemS(S, i) == IF i % 2 = 1 THEN CHOOSE x \in S : \A y \in S : x = y \/ x \in {"buy", "lim"}
                            ELSE CHOOSE x \in S : \A y \in S : x = y \/ x \notin {"buy", "lim"}

\* position-dependent order fields: quantity 2, fill classes 0 / 1 (partial) / 2 (full)
Mk(i, c) ==
    IF c[1] = "open"
    THEN [id |-> i, k |-> "open", at |-> c[2], d |-> c[3], res |-> c[4], inst |-> Elem(INST, i),
          side |-> ElemS(SIDE, i), price |-> Elem(PRICE, i), qty |-> 2, b |-> ElemS(BUNDLE, i + 1), fill |-> c[5]]
    ELSE [id |-> i, k |-> "cancel", at |-> c[2], d |-> c[3], res |-> c[4], inst |-> Elem(INST, i),
          side |-> "none", price |-> 0, qty |-> 0, b |-> "none", fill |-> 0]

Idle == /\ now = 0 /\ running = TRUE /\ req = [r \in REQ |-> NoReq] /\ pending = {} /\ out = <<>>
        /\ lagged = {}

GInitT == /\ Idle
          /\ n \in NS
          /\ scn \in {[i \in 1..n |-> Mk(i, c[i])] : c \in [1..n -> Bare]}
          /\ shut = -1
          /\ stall \in {StallOf(scn, o) : o \in STALLOFF}
          /\ done = FALSE

GInitR == /\ Idle
          /\ n = 0
          /\ scn = <<>>
          /\ shut = -1
          /\ stall = <<>>
          /\ done = FALSE

\* every draw is bound once through a singleton set (a LET would re-draw at each reference)
RandScript(i, k, t, d, okerr, q, in, sd, p, bn, f) ==
    LET res == IF d = NEVER THEN "none" ELSE okerr
    IN  IF k = "open"
        THEN [id |-> i, k |-> k, at |-> t, d |-> d, res |-> res, inst |-> in,
              side |-> sd, price |-> p, qty |-> q, b |-> bn, fill |-> IF res = "ok" THEN f ELSE 0]
        ELSE [id |-> i, k |-> k, at |-> t, d |-> d, res |-> res, inst |-> in,
              side |-> "none", price |-> 0, qty |-> 0, b |-> "none", fill |-> 0]

GSize == /\ ~done /\ n = 0
         /\ \E m \in {RandomElement(NS)} : n' = m
         /\ UNCHANGED <<now, running, req, pending, out, lagged, scn, shut, stall, done>>

GDraw == /\ ~done /\ n > 0 /\ Len(scn) < n
         /\ \E k \in {RandomElement({"open", "cancel"})}, t \in {RandomElement(ACCEPT)},
               d \in {RandomElement(DELAY \cup {NEVER})}, okerr \in {RandomElement({"ok", "err"})},
               q \in {RandomElement(QTY)}, in \in {RandomElement(INST)}, sd \in {RandomElement(SIDE)},
               p \in {RandomElement(PRICE)}, bn \in {RandomElement(BUNDLE)}, fc \in {RandomElement(0..2)} :
               \E f \in {IF fc = 0 THEN 0 ELSE IF fc = 1 THEN q ELSE RandomElement(0..q)} :
                  scn' = Append(scn, RandScript(Len(scn) + 1, k, t, d, okerr, q, in, sd, p, bn, f))
         /\ UNCHANGED <<now, running, req, pending, out, lagged, n, shut, stall, done>>

GFinishR == /\ ~done /\ n > 0 /\ Len(scn) = n
            /\ \E x \in {RandomElement(SHUT)}, o \in {RandomElement(STALLOFF)} :
                  \* a batch is either stalled or shut down (or neither)
                  /\ stall' = StallOf(scn, o)
                  /\ shut' = IF x >= 9000 \/ StallOf(scn, o) # <<>> THEN -1 ELSE x
            /\ done' = TRUE
            /\ UNCHANGED <<now, running, req, pending, out, lagged, scn, n>>

GFinishT == /\ ~done
            /\ done' = TRUE
            /\ UNCHANGED <<now, running, req, pending, out, lagged, scn, n, shut, stall>>

GSpecT == GInitT /\ [][GFinishT]_gvars
GSpecR == GInitR /\ [][GSize \/ GDraw \/ GFinishR]_gvars

\* generated requests are scripts of the specification
Script(s) == [k |-> s.k, at |-> s.at, d |-> s.d, res |-> s.res, inst |-> s.inst, side |-> s.side,
              price |-> s.price, qty |-> s.qty, b |-> s.b, fill |-> s.fill]
WellFormed == \A i \in 1..Len(scn) : IsScript(Script(scn[i]), scn[i].at)

PrintScn == done => PrintT(<<"SCN", ToJson([T |-> T, shut |-> shut, stall |-> stall, reqs |-> scn])>>)
=============================================================================
