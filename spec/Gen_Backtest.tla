---------------------------- MODULE Gen_Backtest ----------------------------
(* Scenario generation (spec -> impl) for C20.                               *)
(* TLC enumerates EVERY strategy parameterisation over every small dataset   *)
(*   n in NS, recs in RECS (positions of Reconnecting items, shared by the   *)
(*   runs of one scenario), acts = any set of at most MaxOrders market items *)
(* explores every interleaving of the single-run system for it and prints,   *)
(* once per distinct outcome, what a finished backtest may have observed:    *)
(*   {"n","recs","acts","consumed","sent","trades","pending"}                *)
(* (consumed / sent: dataset ids ; trades: orders whose fill the engine      *)
(* applied before it processed Shutdown, in application order ; pending:     *)
(* number of account events not applied before Shutdown).                    *)
(* The harness runs all parameterisations of one dataset CONCURRENTLY        *)
(* through the real run_backtests (and each alone) and requires every run's  *)
(* final observation to be one of the printed outcomes - the one with        *)
(* pending = 0 when the data source is gated.                                *)
EXTENDS Backtest, Json

CONSTANTS NS, RECS, MaxOrders

GenParams == (1 :> [n |-> 0, recs |-> {}, acts |-> {}, fatalAt |-> {}, srcFailAt |-> {}])

AllParams == { [n |-> n, recs |-> recs, acts |-> acts, fatalAt |-> {}, srcFailAt |-> {}] :
                 n \in NS, recs \in RECS, acts \in SUBSET (UNION {1..m : m \in NS}) }

\* (a dataset holds at least one market item: MarketDataInMemory::new refuses any other)
Admissible(p) == /\ p.recs \subseteq 1..p.n /\ p.recs # 1..p.n
                 /\ p.acts \subseteq (1..p.n) \ p.recs
                 /\ Cardinality(p.acts) <= MaxOrders

GInit == \E p \in {q \in AllParams : Admissible(q)} : run = (1 :> InitRun(p))
GSpec == GInit /\ [][Next]_vars

SeqOfSet(S) == LET RECURSIVE F(_)
                   F(T) == IF T = {} THEN <<>> ELSE LET m == CHOOSE x \in T : \A y \in T : x <= y IN <<m>> \o F(T \ {m})
               IN F(S)

Outcome(r) == [n |-> r.p.n, recs |-> SeqOfSet(r.p.recs), acts |-> SeqOfSet(r.p.acts),
               consumed |-> IdsOf(r.consumed), sent |-> r.sent,
               trades |-> r.summary.trades,
               pending |-> Cardinality(r.exch) + Len(SelectSeq(r.feed, LAMBDA x : x.t = "a"))]

Emit == run[1].phase = "done" => PrintT(<<"SCN", ToJson(Outcome(run[1]))>>)
=============================================================================
