---------------------------- MODULE MockExchange ----------------------------
(***************************************************************************)
(* The simulated exchange of barter-execution (C08).                       *)
(*                                                                         *)
(* Code transcribed: barter-execution/src/exchange/mock/mod.rs             *)
(*   MockExchange::run (request loop)        -> one action per request kind *)
(*     update_time_exchange                  -> Tick                        *)
(*     OpenOrder: open_order + ack_trade + send_notifications               *)
(*        validate_order_kind_supported      -> OpenRejectKind              *)
(*        find_instrument_data               -> OpenRejectInstr             *)
(*        match side { Buy / Sell } x { enough / not enough }               *)
(*                                           -> OpenAcceptBuy,  OpenRejectFundsBuy,   *)
(*                                              OpenAcceptSell, OpenRejectFundsSell   *)
(*     FetchAccountSnapshot / FetchBalances / FetchTrades                   *)
(*                                           -> FetchSnapshot, FetchBalances, FetchTrades *)
(*   barter-execution/src/exchange/mock/account.rs (AccountState)          *)
(*                                           -> bal, open, trades           *)
(*                                                                         *)
(* Units.  Prices and quantities are whole numbers; every *amount* (a       *)
(* balance, the amount an order needs, a fee) is an integer count of        *)
(* 1/100 units ("centi-units") and the fee rate is an integer percentage,   *)
(* so   need(buy) = p*q*(100+fee)   need(sell) = q*(100+fee)   fee = p*q*fee *)
(* are exact.  `fee` = 100 x the configured `fees_percent` (the code uses   *)
(* the configured number as a plain factor: 0.05 is five percent).          *)
(*                                                                         *)
(* The world is fixed: three assets, two known instruments that share an    *)
(* asset (btc is the base of one and the quote of the other) and one        *)
(* instrument the exchange does not list.                                   *)
(*                                                                         *)
(* Deliberately open (DESIGN 5.4 - only what the property leaves open):     *)
(*   * the value of a fresh id: any id not below `nextId` (IdSlack = 0      *)
(*     reproduces the code's counter);                                      *)
(*   * the reason given for a rejection (`why` is carried, never judged);   *)
(*   * the reading of the exchange clock while a request is served: any     *)
(*     instant between the client's request time and request time + latency *)
(*     (ClockSlack = FALSE reproduces the code: request time + latency/2);  *)
(*     a fill carries that reading;                                         *)
(*   * the order of the balance and the trade notification of one order     *)
(*     (the projection sorts the notifications of one request by kind);     *)
(*   * the bought asset is NOT credited (the statement does not ask it).    *)
(* A request is served the same way whether or not anybody still waits for  *)
(* its answer: the spec has no notion of a consumed response, so ledger,     *)
(* fills, ids and notifications of an abandoned OpenOrder are those of an    *)
(* answered one (the harness abandons requests; Trace_MockExchange judges).  *)
(* Environment assumptions: initial balances have total = free (the code    *)
(* asserts it: only market orders exist) and every asset of a listed        *)
(* instrument has a balance entry (the code expects it).                    *)
(***************************************************************************)
EXTENDS Integers, Sequences, FiniteSets, TLC

CONSTANTS Times,      \* client request times (ms offsets)
          Prices,     \* whole prices
          Qtys,       \* whole quantities
          BalInit,    \* initial balances (centi-units), total = free
          FeePcts,    \* fee rates in percent
          Lats,       \* configured round-trip latencies (ms)
          Sinces,     \* `time_since` arguments of FetchTrades
          OpenCids,   \* client ids of the resting orders configured initially
          MaxTrades,  \* bound on accepted orders (model checking only)
          IdSlack,    \* how far above nextId a fresh id may be
          ClockSlack  \* FALSE: the exchange clock reads request time + latency/2 (the code);
                      \* TRUE: anything from request time to request time + latency

VARIABLES fee,        \* configured fee percentage            (never changes)
          lat,        \* configured latency                   (never changes)
          bal,        \* [Assets -> [total, free]]            AccountState.balances
          open,       \* set of resting orders                AccountState.orders_open
          nextId,     \* smallest id not yet handed out       MockExchange.order_sequence
          now,        \* exchange clock                       MockExchange.time_exchange_latest
          trades,     \* sequence of fills                    AccountState.trades
          notif,      \* every notification emitted so far    broadcast account stream
          last,       \* the request just served and its response
          res         \* the data returned by the request just served (queries)

world  == <<fee, lat>>
ledger == <<bal, open, nextId, trades, notif>>
vars   == <<fee, lat, bal, open, nextId, now, trades, notif, last, res>>

(***************************************************************************)
(* The fixed world                                                         *)
(***************************************************************************)
Assets  == {"btc", "eth", "usdt"}
Known   == {"btc_usdt", "eth_btc"}
Unknown == {"xrp_usdt"}
Instrs  == Known \cup Unknown
Base(i)  == IF i = "btc_usdt" THEN "btc"  ELSE "eth"
Quote(i) == IF i = "btc_usdt" THEN "usdt" ELSE "btc"
Sides == {"buy", "sell"}
Kinds == {"market", "limit"}

\* resting orders that may be configured in the initial account (never touched by market orders)
OpenOrder(c) ==
  IF c = "o1" THEN [cid |-> "o1", instr |-> "btc_usdt", side |-> "buy",  p |-> 1, q |-> 1, filled |-> 0, st |-> "open"]
              ELSE [cid |-> c,    instr |-> "eth_btc",  side |-> "sell", p |-> 2, q |-> 2, filled |-> 0, st |-> "open"]

(***************************************************************************)
(* Requests, responses                                                     *)
(***************************************************************************)
Req(op, t, side, p, q, instr, kind, since) ==
  [op |-> op, t |-> t, side |-> side, p |-> p, q |-> q, instr |-> instr, kind |-> kind, since |-> since]

OpenReqs  == {Req("open", t, s, p, q, i, k, 0) : t \in Times, s \in Sides, p \in Prices, q \in Qtys, i \in Instrs, k \in Kinds}
SnapReqs  == {Req("snapshot", t, "none", 0, 0, "none", "none", 0) : t \in Times}
BalReqs   == {Req("balances", t, "none", 0, 0, "none", "none", 0) : t \in Times}
TradeReqs == {Req("trades", t, "none", 0, 0, "none", "none", s) : t \in Times, s \in Sinces}
Requests  == OpenReqs \cup SnapReqs \cup BalReqs \cup TradeReqs
NoReq     == Req("init", 0, "none", 0, 0, "none", "none", 0)

\* out: "ok" accepted, "rej" rejected, "query" a query was answered
Resp(r, out, why, id, filled) == [req |-> r, out |-> out, why |-> why, id |-> id, filled |-> filled]

NoBal  == [a \in Assets |-> [total |-> 0, free |-> 0]]
NoRes  == [bal |-> NoBal, trades |-> <<>>, open |-> {}]

(***************************************************************************)
(* What an order needs, which asset pays, what the fill reports             *)
(***************************************************************************)
Market(r)   == r.kind = "market"
Listed(r)   == r.instr \in Known
Spent(r)    == IF r.side = "buy" THEN Quote(r.instr) ELSE Base(r.instr)
Need(r)     == IF r.side = "buy" THEN r.p * r.q * (100 + fee) ELSE r.q * (100 + fee)
FeeQuote(r) == r.p * r.q * fee                      \* reported in the quote asset for both sides
Funded(r)   == bal[Spent(r)].free >= Need(r)
Accepts(r)  == r.op = "open" /\ Market(r) /\ Listed(r) /\ Funded(r)

NowAfter(r) == r.t + (lat \div 2)                   \* MockExchange::update_time_exchange

Debit(b, a, n) == [b EXCEPT ![a] = [total |-> @.total - n, free |-> @.free - n]]

ClockChoices(r) == IF ClockSlack THEN r.t .. (r.t + lat) ELSE {NowAfter(r)}

Fill(id, r, tt) == [id |-> id, oid |-> id, instr |-> r.instr, side |-> r.side, p |-> r.p, q |-> r.q,
                    fee |-> FeeQuote(r), t |-> tt]
NoFill == [id |-> -1, oid |-> -1, instr |-> "none", side |-> "none", p |-> 0, q |-> 0, fee |-> 0, t |-> 0]

\* the two notifications of one accepted order (same record shape for both kinds)
BalNotif(a, b)  == [k |-> "balance", asset |-> a, total |-> b.total, free |-> b.free, trade |-> NoFill]
FillNotif(tr)   == [k |-> "trade", asset |-> "none", total |-> 0, free |-> 0, trade |-> tr]

FreshIds == nextId .. (nextId + IdSlack)

TradesSince(s) == SelectSeq(trades, LAMBDA x : x.t >= s)   \* AccountState::trades(time_since)

(***************************************************************************)
(* Behaviour                                                               *)
(***************************************************************************)
Init == /\ fee \in FeePcts
        /\ lat \in Lats
        /\ bal \in {[a \in Assets |-> [total |-> f[a], free |-> f[a]]] : f \in [Assets -> BalInit]}
        /\ open = {OpenOrder(c) : c \in OpenCids}
        /\ nextId = 0
        /\ now = 0
        /\ trades = <<>>
        /\ notif = <<>>
        /\ last = Resp(NoReq, "init", "-", -1, 0)
        /\ res = NoRes

Tick(r, tt) == tt \in ClockChoices(r) /\ now' = tt

Reject(r, tt, why) == /\ Tick(r, tt)
                  /\ UNCHANGED <<world, ledger>>
                  /\ last' = Resp(r, "rej", why, -1, 0)
                  /\ res' = NoRes

Accept(r, id, tt) == /\ id \in FreshIds
                 /\ Tick(r, tt)
                 /\ bal' = Debit(bal, Spent(r), Need(r))
                 /\ nextId' = id + 1
                 /\ trades' = Append(trades, Fill(id, r, tt))                     \* ack_trade
                 /\ notif' = notif \o <<BalNotif(Spent(r), bal'[Spent(r)]), FillNotif(Fill(id, r, tt))>>
                 /\ last' = Resp(r, "ok", "-", id, r.q)
                 /\ res' = NoRes
                 /\ UNCHANGED <<world, open>>

\* --- one action per arm of MockExchange::open_order ---
OpenRejectKind(r, tt)      == r.op = "open" /\ ~Market(r) /\ Reject(r, tt, "kind")
OpenRejectInstr(r, tt)     == r.op = "open" /\ Market(r) /\ ~Listed(r) /\ Reject(r, tt, "instr")
OpenAcceptBuy(r, id, tt)   == r.op = "open" /\ Market(r) /\ Listed(r) /\ r.side = "buy"  /\ Funded(r)  /\ Accept(r, id, tt)
OpenRejectFundsBuy(r, tt)  == r.op = "open" /\ Market(r) /\ Listed(r) /\ r.side = "buy"  /\ ~Funded(r) /\ Reject(r, tt, "funds")
OpenAcceptSell(r, id, tt)  == r.op = "open" /\ Market(r) /\ Listed(r) /\ r.side = "sell" /\ Funded(r)  /\ Accept(r, id, tt)
OpenRejectFundsSell(r, tt) == r.op = "open" /\ Market(r) /\ Listed(r) /\ r.side = "sell" /\ ~Funded(r) /\ Reject(r, tt, "funds")

\* --- queries: answer from the ledger, change nothing but the clock ---
Query(r, tt, answer) == /\ Tick(r, tt)
                    /\ UNCHANGED <<world, ledger>>
                    /\ last' = Resp(r, "query", "-", -1, 0)
                    /\ res' = answer

FetchSnapshot(r, tt) == r.op = "snapshot" /\ Query(r, tt, [NoRes EXCEPT !.bal = bal, !.open = open])
FetchBalances(r, tt) == r.op = "balances" /\ Query(r, tt, [NoRes EXCEPT !.bal = bal])
FetchTrades(r, tt)   == r.op = "trades"   /\ Query(r, tt, [NoRes EXCEPT !.trades = TradesSince(r.since)])

\* the step the exchange takes for request r with its clock reading tt (id matters for the
\* accepting arms only)
Serve(r, id, tt) == \/ OpenRejectKind(r, tt)  \/ OpenRejectInstr(r, tt)
                    \/ OpenAcceptBuy(r, id, tt)  \/ OpenRejectFundsBuy(r, tt)
                    \/ OpenAcceptSell(r, id, tt) \/ OpenRejectFundsSell(r, tt)
                    \/ FetchSnapshot(r, tt) \/ FetchBalances(r, tt) \/ FetchTrades(r, tt)

Bounded == Len(trades) < MaxTrades

OpenRejectKindA      == \E r \in OpenReqs : \E tt \in ClockChoices(r) : OpenRejectKind(r, tt)
OpenRejectInstrA     == \E r \in OpenReqs : \E tt \in ClockChoices(r) : OpenRejectInstr(r, tt)
OpenAcceptBuyA       == Bounded /\ \E r \in OpenReqs : \E id \in FreshIds : \E tt \in ClockChoices(r) : OpenAcceptBuy(r, id, tt)
OpenRejectFundsBuyA  == \E r \in OpenReqs : \E tt \in ClockChoices(r) : OpenRejectFundsBuy(r, tt)
OpenAcceptSellA      == Bounded /\ \E r \in OpenReqs : \E id \in FreshIds : \E tt \in ClockChoices(r) : OpenAcceptSell(r, id, tt)
OpenRejectFundsSellA == \E r \in OpenReqs : \E tt \in ClockChoices(r) : OpenRejectFundsSell(r, tt)
FetchSnapshotA       == \E r \in SnapReqs : \E tt \in ClockChoices(r) : FetchSnapshot(r, tt)
FetchBalancesA       == \E r \in BalReqs : \E tt \in ClockChoices(r) : FetchBalances(r, tt)
FetchTradesA         == \E r \in TradeReqs : \E tt \in ClockChoices(r) : FetchTrades(r, tt)

Next == \/ OpenRejectKindA \/ OpenRejectInstrA
        \/ OpenAcceptBuyA \/ OpenRejectFundsBuyA
        \/ OpenAcceptSellA \/ OpenRejectFundsSellA
        \/ FetchSnapshotA \/ FetchBalancesA \/ FetchTradesA

Spec == Init /\ [][Next]_vars

(***************************************************************************)
(* The property C08                                                        *)
(***************************************************************************)
Ids(s) == {s[i].id : i \in DOMAIN s}

TypeOK == /\ bal \in [Assets -> [total : Int, free : Int]]
          /\ nextId \in Nat
          /\ \A i \in DOMAIN trades : trades[i].instr \in Known /\ trades[i].side \in Sides

\* never lets a balance go negative (and total = free: nothing is ever locked)
NonNegative == \A a \in Assets : bal[a].free >= 0 /\ bal[a].total >= 0 /\ bal[a].total = bal[a].free

\* ids are strictly increasing along the ledger, all below nextId: never reused
FreshIdsInv == /\ \A i \in DOMAIN trades : trades[i].id < nextId /\ trades[i].oid = trades[i].id
               /\ \A i, j \in DOMAIN trades : i < j => trades[i].id < trades[j].id

\* one balance and one trade notification per fill, in fill order
Notif11Inv == /\ Len(notif) = 2 * Len(trades)
              /\ \A i \in DOMAIN trades : /\ notif[2 * i - 1].k = "balance"
                                          /\ notif[2 * i] = FillNotif(trades[i])

Inv == TypeOK /\ NonNegative /\ FreshIdsInv /\ Notif11Inv

\* ---- step formulas over (ledger, ledger', last', res') ----
Served   == last'.req
Accepted == last'.out = "ok"
Rejected == last'.out = "rej"

\* accepted iff a listed market order whose spent asset covers price x quantity plus fees (buy,
\* quote asset) / quantity plus fees (sell, base asset)
AcceptIffA == Served.op = "open" =>
                 /\ Accepted \/ Rejected
                 /\ Accepted <=> ( /\ Served.kind = "market" /\ Served.instr \in Known
                                   /\ bal[Spent(Served)].free >= Need(Served) )

\* debits exactly that asset by exactly that amount, every other balance untouched
ExactDebitA == Accepted =>
                 LET a == Spent(Served) IN
                 /\ bal'[a].total = bal[a].total - Need(Served)
                 /\ bal'[a].free  = bal[a].free  - Need(Served)
                 /\ \A b \in Assets \ {a} : bal'[b] = bal[b]

\* a rejection (and a query) leaves the whole ledger untouched
RejectPureA == ~Accepted => UNCHANGED ledger

\* the id handed out was never used before and exceeds every earlier one
FreshIdsA == Accepted => /\ last'.id \notin Ids(trades)
                         /\ \A i \in DOMAIN trades : trades[i].id < last'.id
                         /\ last'.id >= nextId /\ nextId' > last'.id

\* exactly one fill per accepted order: whole quantity, the order's own id, fees = fee% of value
OneFillA == /\ Accepted =>
                 /\ Len(trades') = Len(trades) + 1
                 /\ SubSeq(trades', 1, Len(trades)) = trades
                 /\ LET f == trades'[Len(trades')] IN
                      /\ f.id = last'.id /\ f.oid = last'.id
                      /\ f.instr = Served.instr /\ f.side = Served.side
                      /\ f.p = Served.p /\ f.q = Served.q /\ last'.filled = Served.q
                      /\ f.fee = f.p * f.q * fee
                      /\ f.t = now'                                  \* stamped with the exchange clock
            /\ ~Accepted => trades' = trades

\* announced by one balance and one trade notification; nothing is announced otherwise
Notif11A == /\ Accepted =>
                 /\ Len(notif') = Len(notif) + 2
                 /\ SubSeq(notif', 1, Len(notif)) = notif
                 /\ LET nb == notif'[Len(notif) + 1]  nt == notif'[Len(notif) + 2] IN
                      /\ nb.k = "balance" /\ nb.asset = Spent(Served)
                      /\ nb.total = bal'[nb.asset].total /\ nb.free = bal'[nb.asset].free
                      /\ nt.k = "trade" /\ nt.trade = trades'[Len(trades')]
            /\ ~Accepted => notif' = notif

\* snapshots and queries show the ledger; market orders never touch the resting orders
QueriesReflectA == /\ Served.op = "snapshot" => res'.bal = bal /\ res'.open = open
                   /\ Served.op = "balances" => res'.bal = bal
                   /\ Served.op = "trades" =>
                        res'.trades = SelectSeq(trades, LAMBDA x : x.t >= Served.since)
                   /\ open' = open

ConfigFixedA == fee' = fee /\ lat' = lat

\* the exchange clock reads an instant between the request and the arrival of its answer
ClockA == now' >= Served.t /\ now' <= Served.t + lat

StepProps == AcceptIffA /\ ExactDebitA /\ RejectPureA /\ FreshIdsA /\ OneFillA /\ Notif11A
             /\ QueriesReflectA /\ ConfigFixedA /\ ClockA

AcceptIff      == [][AcceptIffA]_vars
ExactDebit     == [][ExactDebitA]_vars
RejectPure     == [][RejectPureA]_vars
FreshIdsStep   == [][FreshIdsA]_vars
OneFill        == [][OneFillA]_vars
Notif11        == [][Notif11A]_vars
QueriesReflect == [][QueriesReflectA]_vars
ConfigFixed    == [][ConfigFixedA]_vars
Clock          == [][ClockA]_vars

\* `now` is written before it is read in every step and `last`/`res` only record the step: none of
\* them influences what can happen next, so states are identified up to them.
View == <<fee, lat, bal, open, nextId, trades, notif>>
=============================================================================
