"""C07 - every execution request is answered exactly once, response or timeout (spec/ExecManager.tla)."""
import json
import vlib

MODULE = "ExecManager"
TIMEOUT_MS = 100
LATE_RESPONSE_OK = True   # = LateResponseOK of spec/Trace_ExecManager*.cfg (used to describe, not to decide)
META = {
    "spec": ["ExecManager", "BarterSystem", "AccountLink"],
    "technique": "TLC model checking of ExecManager (safety exhaustively, liveness under weak fairness) and of the "
                 "composition BarterSystem (in flight ~> resolved) + "
                 "trace validation of the real ExecutionManager::run under tokio's paused clock against the spec",
    "level_note": "Trusted: TLC, the projection (emit_line) and the scripted ExecutionClient in harness/src/bin/c07.rs, "
                  "tokio's paused clock as the source of the virtual-time stamps, the environment assumptions listed in "
                  "the evidence file. Safety and liveness are decided exhaustively on the bounded models only; the "
                  "implementation is bound by executing every TLC-generated batch plus seeded random batches of up to "
                  "200 outstanding requests and validating each recorded trace as a behaviour of the spec.",
}
ASSUMPTIONS = [
    "the order keys (exchange, instrument, strategy, client order id) of the requests outstanding at one manager are distinct; "
    "client order ids alone need not be: in every odd scenario neighbouring requests for DIFFERENT instruments bear one "
    "client order id, and each answer must still come back under the key of its own request (the driver identifies a request "
    "by its strategy id, unique per request, and requires the client order id that request bore)",
    "the exchange client echoes the key and order fields of the request it was given and reports 0 <= filled <= quantity",
    "the client's own errors are not Connectivity(Timeout) (otherwise its response and the timeout failure are the same event)",
    "request keys are configured in the manager's instrument map (otherwise ExecutionManager::run panics by design)",
    "a response completing exactly at the deadline may be delivered as response or as timeout failure; events due at "
    "the same virtual instant may be delivered in any order (DESIGN 5.4)",
    "one exchange with a single-exchange instrument collection (the per-exchange index maps of other exchanges are C04's subject)",
    "STALL scenarios: while the manager task is not scheduled (one clock jump over several due instants) events cannot "
    "appear at their own instants; they must appear at the end of the jump, and which event a request gets is still "
    "decided by its delay against the timeout: delay < T the response, delay = T either, never the timeout failure",
    "a response that completed AFTER the deadline while the manager was not scheduled (both instants inside one stall) "
    "may be delivered as the response or as the timeout failure (LateResponseOK = TRUE in the trace configurations; "
    "tokio's Timeout polls the response first and delivers it; a timeout bounds the waiting of an unscheduled observer only from below)",
    "NO-TIMEOUT configuration: a manager built with request timeout Duration::MAX or u64::MAX/2 s never times a request "
    "out (NoTimeout = TRUE): every accepted request is answered by the client's own response; a request the client "
    "never answers is then legitimately never answered",
    "request timeout 0: a request whose client response is not ready when the request future is first polled times out "
    "at the accept instant; a client answering with delay 0 races the timeout at the same instant (either, as for every tie)",
    "managers are built with ExecutionManager::new and, for the boundary-timeout / no-timeout / random families, through "
    "the public ExecutionManager::init (the account snapshot must come first on the merged account stream)",
    "after Shutdown / end of the request stream pending requests are dropped unanswered (outside 'while running')",
    "tokio's select! branch order is drawn by tokio itself and cannot be seeded; every recorded outcome is validated",
]
EV_FIELDS = ("ex", "kex", "inst", "side", "price", "qty", "b", "st", "err", "fill", "oid")
SCRIPT_FIELDS = ("id", "k", "at", "d", "res", "inst", "side", "price", "qty", "b", "fill")


# ----------------------------------------------------------------------------- python mirror
# (used only to *describe* a line TLC rejected - the verdict is TLC's)
def expected_event(s, kind):
    e = {"ex": 0, "kex": 0, "inst": s["inst"], "side": s["side"], "price": s["price"], "qty": s["qty"],
         "b": s["b"], "st": "none", "err": "none", "fill": 0, "oid": 0}
    fail, done = ("OpenFailed", None) if s["k"] == "open" else ("CancelFailed", "Cancelled")
    if kind == "timeout":
        e.update(st=fail, err="timeout")
    elif s["res"] == "err":
        e.update(st=fail, err="rejected")
    elif s["k"] == "cancel":
        e.update(st=done, oid=s["id"])
    elif s["fill"] == s["qty"]:
        e.update(st="FullyFilled")
    else:
        e.update(st="Open", fill=s["fill"], oid=s["id"])
    return e


def delay_class(s, T):
    if s["d"] < 0:
        return "never"
    return "<T" if s["d"] < T else ("=T" if s["d"] == T else ">T")


def due(s, T):
    return s["at"] + (s["d"] if 0 <= s["d"] < T else T)     # T = NO_TIMEOUT: never-answered requests are never due


NO_TIMEOUT = 2 ** 40      # "T" used to describe traces of a manager with a maximal request timeout


def describe(seg, T):
    """Why the last line of `seg` (Reset .. offending line) is not a step of ExecManager."""
    scripts, answered, running, now, lag = {}, set(), True, 0, {}
    for line in seg[:-1]:
        if line["a"] == "Stall":
            for i, s in scripts.items():
                if running and i not in answered and due(s, T) < line["at"]:
                    lag.setdefault(i, line["at"])       # passed while the manager was not scheduled
        now = max(now, line["at"])
        if line["a"] == "Accept":
            scripts[line["id"]] = {k: line[k] for k in SCRIPT_FIELDS}
        elif line["a"] == "Emit":
            answered.add(line["id"])
        elif line["a"] == "Shutdown":
            running = False
    line = seg[-1]
    pending = [s for i, s in scripts.items() if i not in answered] if running else []
    # due (or, after a stall, the end of the stall) strictly before this observation and still unanswered
    overdue = [s for s in pending if max(due(s, T), lag.get(s["id"], 0)) < line["at"]
               and not (line["a"] == "Emit" and line["id"] == s["id"])]
    out = []
    if overdue:
        s = overdue[0]
        out.append(("unanswered:%s:%s%s" % (s["k"], delay_class(s, T), ":stalled" if s["id"] in lag else ""),
                    "%s request c%d accepted at %d ms (client: delay %s, %s) was due at %d ms%s but nothing had been emitted "
                    "for it when the next observation was made at %d ms (%d request(s) overdue)" % (
                        s["k"], s["id"], s["at"], "never" if s["d"] < 0 else "%d ms" % s["d"], s["res"], due(s, T),
                        " (manager stalled until %d ms)" % lag[s["id"]] if s["id"] in lag else "",
                        line["at"], len(overdue))))
    if line["a"] == "End" and running and [s for s in pending if due(s, T) >= line["at"]]:
        out.append(("tool:end-before-deadline", "harness stopped listening before the last deadline"))
    if line["a"] == "Emit":
        i = line["id"]
        if i not in scripts:
            out.append(("emit:unaccepted", "an event for c%s was emitted at %d ms but no such request had been accepted" % (i, line["at"])))
        elif i in answered:
            s = scripts[i]
            out.append(("emit:duplicate:%s:%s" % (s["k"], delay_class(s, T)),
                        "a second event (%s, %s/%s) for %s request c%d was emitted at %d ms" % (
                            line["k"], line["st"], line["err"], s["k"], i, line["at"])))
        elif not running:
            out.append(("emit:after-shutdown", "an event for c%d was emitted at %d ms after the manager had returned" % (i, line["at"])))
        else:
            s = scripts[i]
            dc = delay_class(s, T)
            stalled = i in lag
            allowed = {"<T": ["resp"], "=T": ["resp", "timeout"], ">T": ["timeout"], "never": ["timeout"]}[dc]
            if T == NO_TIMEOUT:
                allowed = ["resp"] if s["d"] >= 0 else []
            if dc == ">T" and stalled and LATE_RESPONSE_OK and s["at"] + s["d"] <= line["at"]:
                allowed = ["resp", "timeout"]
            pre = "%s request c%d accepted at %d ms, client answers %s after %s (T=%s)%s" % (
                s["k"], i, s["at"], s["res"], "never" if s["d"] < 0 else "%d ms" % s["d"],
                "none: request timeout Duration::MAX" if T == NO_TIMEOUT else "%d ms" % T,
                ", manager not scheduled from before its due instant until %d ms" % lag[i] if stalled else "")
            if line["k"] not in allowed:
                out.append(("emit:%s:%s:kind=%s%s" % (s["k"], dc, line["k"], ":stalled" if stalled else ""),
                            "%s: emitted a %s event (%s/%s) at %d ms, the spec allows only %s" % (
                                pre, line["k"], line["st"], line["err"], line["at"], " or ".join(allowed) or "no event")))
            else:
                when = s["at"] + (s["d"] if line["k"] == "resp" else T)
                if (line["at"] < when) if stalled else (line["at"] != when):
                    out.append(("emit:%s:%s:%s:%s" % (s["k"], dc, line["k"], "late" if line["at"] > when else "early"),
                                "%s: the %s event was emitted at %d ms instead of %d ms" % (pre, line["k"], line["at"], when)))
                exp = expected_event(s, line["k"])
                diff = [f for f in EV_FIELDS if line[f] != exp[f]]
                if diff:
                    out.append(("emit:%s:%s:%s:fields=%s" % (s["k"], line["k"], s["res"] if line["k"] == "resp" else "-", ",".join(diff)),
                                "%s: the %s event differs from what the request and the client's answer determine in %s" % (
                                    pre, line["k"], ", ".join("%s=%s (expected %s)" % (f, json.dumps(line[f]), json.dumps(exp[f])) for f in diff))))
    if not out:
        out.append(("rejected:%s" % line["a"], "line %s at %d ms is not a step of ExecManager" % (line["a"], line["at"])))
    return out


def anomaly_of(line):
    if line.get("a") == "Anomaly":
        return line.get("what", "anomaly")
    if line.get("a") == "Emit":
        for f in ("price", "qty", "fill"):
            if not isinstance(line.get(f), int):
                return "event for c%s carries a non-integral %s %r no request or response carried" % (line.get("id"), f, line.get(f))
    return None


def anomaly_sig(desc):
    for key, sig in (("never answered", "manager-died:requests-never-answered"), ("panicked", "panic"), ("did not return", "no-stop"), ("client order id", "foreign-cid"),
                     ("strategy", "strategy"), ("answers no request", "foreign-event"), ("Reconnecting", "foreign-event"),
                     ("millisecond", "tool:sub-ms"), ("non-integral", "non-integral"), ("request channel closed", "stream-closed")):
        if key in desc:
            return "anomaly:" + sig
    return "anomaly:other"


# ----------------------------------------------------------------------------- validation
def validate(ctx, trace_path, scenarios, label, big=False, expect=None, nt=False, T=TIMEOUT_MS):
    """TLC-validate one recorded trace; report every rejected line as a violation (or, for the
    self-test, return the set of rejected line numbers)."""
    lines = ctx.read_trace(trace_path)
    for a, b in zip(lines, lines[1:]):
        if b["a"] != "Reset" and b["at"] < a["at"]:
            raise vlib.ToolError("stamps of %s are not monotone" % trace_path)
    max_id = max([l["id"] for l in lines if isinstance(l.get("id"), int)] + [0])
    if max_id > (200 if big else 4):
        raise vlib.ToolError("trace %s uses request id %d beyond the trace configuration" % (trace_path, max_id))
    clean = ctx.path("clean_" + label.replace("/", "_") + ".ndjson")
    found, keep = ctx.screen_anomalies(lines, clean, anomaly_of)
    for n, d, seg in found:
        ctx.violation(anomaly_sig(d), "%s [%s, scenario %d]" % (d, label, seg[0]["n"]),
                      {"scenario": scenarios[seg[0]["n"]], "trace": seg})
    if not keep:
        return set()
    cfg = "Trace_ExecManager%s%s.cfg" % ("_big" if big else "", "_nt" if nt else ("" if T == TIMEOUT_MS else "_t%d" % T))
    n, bad, truncated = ctx.tlc_trace("Trace_" + MODULE, cfg, clean)
    bad = sorted(set(bad))
    if expect is not None:
        return set(bad)
    for b in bad:
        seg = ctx.segment(keep, b)
        for sig, desc in describe(seg, NO_TIMEOUT if nt else T):
            if sig.startswith("tool:"):
                raise vlib.ToolError(desc)
            ctx.violation(sig, "%s [%s, scenario %d, line %d]" % (desc, label, seg[0]["n"], b),
                          {"scenario": scenarios[seg[0]["n"]], "trace": seg})
    ctx.cov["traces_validated_against_impl"] += sum(1 for l in keep if l["a"] == "Reset")
    return set(bad)


def selftest(ctx, trace_path, stall_trace_path):
    """The binding must bite: corrupt one field / drop / duplicate one line of a recorded (accepted)
    trace and require TLC to reject exactly there."""
    def segments(path):
        segs, cur = [], []
        for l in ctx.read_trace(path):
            if l["a"] == "Reset" and cur:
                segs.append(cur)
                cur = []
            cur.append(l)
        segs.append(cur)
        return segs

    segs, stall_segs = segments(trace_path), segments(stall_trace_path)

    def pick(pred, segs=segs):
        for s in segs:
            for j, l in enumerate(s):
                if l["a"] == "Emit" and pred(s, l):
                    return s, j
        raise vlib.ToolError("self-test: the recorded trace has no suitable line to corrupt")

    script = lambda s, l: next(x for x in s if x["a"] == "Accept" and x["id"] == l["id"])
    cases = []
    s, j = pick(lambda s, l: l["k"] == "resp" and l["st"] == "Open")
    cases.append(("instrument of a response changed", s[:j] + [dict(s[j], inst=(s[j]["inst"] + 1) % 3)] + s[j + 1:], j))
    s, j = pick(lambda s, l: l["k"] == "timeout" and l["side"] != "none")
    cases.append(("side of a timeout failure flipped", s[:j] + [dict(s[j], side="buy" if s[j]["side"] == "sell" else "sell")] + s[j + 1:], j))
    s, j = pick(lambda s, l: l["k"] == "resp" and script(s, l)["d"] < TIMEOUT_MS)
    cases.append(("early response reported as timeout failure", s[:j] + [dict(s[j], k="timeout", err="timeout",
                  st="OpenFailed" if script(s, s[j])["k"] == "open" else "CancelFailed", fill=0, oid=0)] + s[j + 1:], j))
    s, j = pick(lambda s, l: True)
    cases.append(("event duplicated", s[:j + 1] + [s[j]] + s[j + 1:], j + 1))
    s, j = pick(lambda s, l: l["k"] == "timeout")
    cases.append(("timeout failure dropped", s[:j] + s[j + 1:], None))
    s, j = pick(lambda s, l: l["k"] == "timeout" and all(x["at"] <= l["at"] or x["a"] in ("End", "Shutdown") for x in s[s.index(l):]))
    late = [dict(x, at=x["at"] + 1) if (i >= j and x["a"] == "Emit" and x["at"] == s[j]["at"]) else x for i, x in enumerate(s)]
    cases.append(("timeout failure one millisecond late", late, j))
    s, j = pick(lambda s, l: l["st"] == "FullyFilled")
    cases.append(("fully filled open reported as Open", s[:j] + [dict(s[j], st="Open", fill=s[j]["qty"], oid=s[j]["id"])] + s[j + 1:], j))
    # the stalled executor: a response that was ready within the timeout, reported as timeout failure
    after_stall = lambda s, l: any(x["a"] == "Stall" and x["at"] == l["at"] for x in s[:s.index(l)])
    s, j = pick(lambda s, l: l["k"] == "resp" and script(s, l)["d"] < TIMEOUT_MS and after_stall(s, l)
                and script(s, l)["at"] + script(s, l)["d"] < l["at"], stall_segs)
    cases.append(("in-time response observed after a stall reported as timeout failure", s[:j] + [dict(s[j], k="timeout", err="timeout",
                  st="OpenFailed" if script(s, s[j])["k"] == "open" else "CancelFailed", fill=0, oid=0)] + s[j + 1:], j))
    s, j = pick(lambda s, l: after_stall(s, l) and (script(s, l)["at"] + min(script(s, l)["d"] % 10**6, TIMEOUT_MS)) < l["at"]
                and all(x["a"] in ("End", "Shutdown") for x in s[s.index(l) + 1:]), stall_segs)
    cases.append(("event passed by a stall dropped", s[:j] + s[j + 1:], None))
    p = ctx.path("selftest_corrupted.ndjson")
    expected, base = [], 0
    with open(p, "w") as f:
        for name, seg, j in cases:
            for l in seg:
                f.write(json.dumps(l) + "\n")
            expected.append((name, base, len(seg), None if j is None else base + j + 1))
            base += len(seg)
    bad = validate(ctx, p, None, "selftest", expect=True)
    for name, b0, ln, exact in expected:
        hit = [b for b in bad if b0 < b <= b0 + ln]
        if not hit or (exact is not None and exact not in hit):
            raise vlib.ToolError("self-test: corrupted trace (%s) was not rejected where expected (rejected lines %s)" % (name, hit))
    ctx.cov["selftest_corrupted_traces_rejected"] = len(cases)
    vlib.log("self-test: %d corrupted traces rejected" % len(cases))


def run_scenarios(ctx, scn_path, scns, label, nt=False, T=TIMEOUT_MS):
    out = ctx.path("trace_%s.ndjson" % label)
    info = ctx.harness("c07", "run", "--scenarios", scn_path, "--out", out)
    validate(ctx, out, scns, label, nt=nt, T=T)
    ctx.cov["scenarios_replayed"] += len(scns)
    return out, info


from props import composition as _composition


def composition(ctx):
    """impl -> spec for the composition (see props/composition.py); C07 owns: every accepted request
    answered exactly once, nothing outstanding and nothing in flight at quiescence."""
    _composition.run(ctx, _composition.C07_TAGS)


def check(ctx):
    ctx.assumptions += ASSUMPTIONS
    ctx.build("c07")
    # the property on the specification: safety exhaustively, liveness under weak fairness
    # (action coverage is taken from the liveness runs - same Next; -coverage slows the big runs down)
    # quick: 3 requests without stalls (the big run) + 2 requests with Stall, all invariants, Stable and
    # liveness (the small run, which also supplies the action coverage); thorough: Stall everywhere
    if ctx.quick:
        ctx.tlc_mc(MODULE, "MC_ExecManager.cfg", timeout=900, coverage=False)
        ctx.tlc_mc(MODULE, "MC_ExecManager_live.cfg", timeout=900)
        ctx.tlc_mc(MODULE, "MC_ExecManager_notimeout.cfg", timeout=900, coverage=False)
        ctx.tlc_mc(MODULE, "MC_ExecManager_t0.cfg", timeout=900, coverage=False)    # Timeout = 0
    else:
        ctx.tlc_mc(MODULE, "MC_ExecManager_thorough.cfg", timeout=1800, coverage=False)
        ctx.tlc_mc(MODULE, "MC_ExecManager_thorough2.cfg", timeout=1800, coverage=False)
        ctx.tlc_mc(MODULE, "MC_ExecManager_live.cfg", timeout=900)
        ctx.tlc_mc(MODULE, "MC_ExecManager_live_thorough.cfg", timeout=1800, coverage=False)
        ctx.tlc_mc(MODULE, "MC_ExecManager_notimeout.cfg", timeout=900, ignore_uncovered=("TimeoutFires",))
        ctx.tlc_mc(MODULE, "MC_ExecManager_t0.cfg", timeout=900)
    # the closing sentence of C07 ("an order the engine shows as in flight is always eventually
    # resolved") is a liveness property of the COMPOSITION engine + request channel + execution
    # manager + account feed (spec/BarterSystem.tla, weak fairness of manager / answer race / engine
    # loop); the weakened specification without answer fairness must violate it (non-vacuity)
    # (each exchange has its own channel / manager / client: Routed; links connect and die: ConnMatchesLinks,
    #  Noticed, Synced).  quick: 2 ids x 1 exchange x 2 requests, 2 ids x 2 exchanges x 1 request, 1 id x 2
    #  exchanges x 2 requests with both links killed; thorough: 2 ids x 2 exchanges x 2 requests
    for cfg in ("MC_BarterSystem.cfg", "MC_BarterSystem_two.cfg", "MC_BarterSystem_links.cfg"):
        ctx.tlc_mc("BarterSystem", cfg, timeout=900, ignore_uncovered=("EngineSendCancel",) if "_two" in cfg else ())
    if not ctx.quick:
        ctx.tlc_mc("BarterSystem", "MC_BarterSystem_thorough.cfg", timeout=1800, coverage=False)
    ctx.tlc_expect_violation("BarterSystem", "MC_BarterSystem_unfair.cfg", "Temporal property Resolved was violated")
    composition(ctx)
    # the manager behind its real account link (ExecutionManager::init: responses merged with the reconnecting account
    # stream; spec/AccountLink.tla, props/acctlink.py): every request handed over is answered exactly once, at its own
    # instant, also while the link is down, waiting out a back-off or re-initialising
    from props import acctlink
    acctlink.run(ctx, {"C07"})
    # spec -> impl -> spec: every generated batch runs on the real manager, its trace is validated
    p_t, scn_t = ctx.tlc_gen("Gen_" + MODULE, "GenT_ExecManager.cfg", "batches.ndjson")
    out_t, _ = run_scenarios(ctx, p_t, scn_t, "batches")
    # STALL batches: one clock jump over several due instants while the manager is not scheduled
    p_s, scn_s = ctx.tlc_gen("Gen_" + MODULE, "GenS_ExecManager.cfg", "stalled.ndjson")
    out_s, info_s = run_scenarios(ctx, p_s, scn_s, "stalled")
    if info_s.get("requests_due_inside_a_stall", 0) < len(scn_s) // 2:
        raise vlib.ToolError("stall scenarios passed only %s due instants" % info_s.get("requests_due_inside_a_stall"))
    if not ctx.violations:
        selftest(ctx, out_t, out_s)      # needs accepted traces to corrupt
    # NO-TIMEOUT batches: the manager is built with request timeout Duration::MAX ("max") and
    # u64::MAX/2 seconds ("huge") - the spec's NoTimeout: only the client's own response may answer,
    # also after ~11 days of virtual time
    _, scn_n = ctx.tlc_gen("Gen_" + MODULE, "GenN_ExecManager.cfg", "notimeout_bare.ndjson")
    scn_n = [dict(s, tmode=m, ctor=c) for s in scn_n for m, c in (("max", "new"), ("huge", "init"))]
    p_n = ctx.path("notimeout.ndjson")
    with open(p_n, "w") as f:
        for s_ in scn_n:
            f.write(json.dumps(s_) + "\n")
    _, info_n = run_scenarios(ctx, p_n, scn_n, "notimeout", nt=True)
    if info_n.get("no_timeout_scenarios") != len(scn_n):
        raise vlib.ToolError("no-timeout scenarios were not run with a maximal request timeout")
    if not ctx.violations and not info_n.get("no_timeout_responses_after_long_delay"):
        raise vlib.ToolError("no-timeout scenarios delivered no response after a long delay")
    # BOUNDARY timeouts 0 and 1 ms, managers built through the public ExecutionManager::init (T = 0:
    # all; T = 1: every other one) - account snapshot first, then the same obligations
    _, scn_z = ctx.tlc_gen("Gen_" + MODULE, "GenZ_ExecManager.cfg", "boundary_bare.ndjson")
    built_with_init = info_n.get("built_with_init", 0)
    for T in (0, 1):
        fam = [dict(s, T=T, ctor="init" if T == 0 or j % 2 else "new") for j, s in enumerate(scn_z)]
        p_z = ctx.path("boundary_t%d.ndjson" % T)
        with open(p_z, "w") as f:
            for s_ in fam:
                f.write(json.dumps(s_) + "\n")
        _, info_z = run_scenarios(ctx, p_z, fam, "timeout%dms" % T, T=T)
        built_with_init += info_z.get("built_with_init", 0)
        if info_z.get("init_snapshot_forwarded_first") != info_z.get("built_with_init"):
            ctx.violation("anomaly:init-snapshot", "ExecutionManager::init did not forward the account snapshot first in %d of %d managers" % (
                info_z.get("built_with_init", 0) - info_z.get("init_snapshot_forwarded_first", 0), info_z.get("built_with_init", 0)),
                {"scenario": fam[0]})
        ctx.cov["timeout_%dms" % T] = {k: info_z.get(k) for k in ("scenarios", "responses", "timeout_failures", "built_with_init")}
    if not built_with_init:
        raise vlib.ToolError("no manager was built through ExecutionManager::init")
    if not info_n.get("requests_sharing_a_client_order_id"):
        raise vlib.ToolError("no two requests of the no-timeout scenarios shared a client order id")
    ctx.cov["requests_sharing_a_client_order_id_no_timeout_family"] = info_n.get("requests_sharing_a_client_order_id")
    ctx.cov["managers_built_with_init"] = built_with_init
    ctx.cov["no_timeout"] = {k: info_n.get(k) for k in ("no_timeout_scenarios", "responses", "timeout_failures",
                                                        "no_timeout_responses_after_long_delay")}
    if not ctx.quick:
        p_3, scn_3 = ctx.tlc_gen("Gen_" + MODULE, "GenT_ExecManager_thorough.cfg", "batches3.ndjson", timeout=900)
        run_scenarios(ctx, p_3, scn_3, "batches3")
    nb = 2000 if ctx.quick else 40000
    p_r, scn_r = ctx.tlc_gen("Gen_" + MODULE, "GenR_ExecManager.cfg", "simulated.ndjson", simulate=(nb, 8), timeout=900)
    run_scenarios(ctx, p_r, scn_r, "simulated")
    ctx.sample({"kind": "TLC batch (exhaustive)", "scenario": scn_t[len(scn_t) // 2]})
    ctx.sample({"kind": "TLC batch (request timeout Duration::MAX)", "scenario": scn_n[len(scn_n) // 2]})
    ctx.sample({"kind": "TLC batch (request timeout 0, manager built with ExecutionManager::init)", "scenario": dict(scn_z[len(scn_z) // 2], T=0, ctor="init")})
    ctx.sample({"kind": "TLC batch (stalled executor)", "scenario": scn_s[len(scn_s) // 2]})
    ctx.sample({"kind": "TLC batch (simulated, with shutdown)", "scenario": next((s for s in scn_r if s["shut"] >= 0), scn_r[0])})
    # seeded random batches of up to 200 outstanding requests, several seeds / runs (each run is a
    # fresh runtime, so tokio's select! order is re-drawn); the traces are validated in one TLC run
    runs, batches = (5, 6) if ctx.quick else (30, 10)
    ties = {"resp": 0, "timeout": 0}
    stalled = 0
    all_lines, all_scns = [], []
    for k in range(runs):
        seed = ctx.seed * 1000 + k
        out = ctx.path("trace_random_%d.ndjson" % k)
        scn = ctx.path("random_%d.ndjson" % k)
        info = ctx.harness("c07", "random", "--seed", seed, "--batches", batches, "--max", 200, "--timeout", TIMEOUT_MS,
                           "--out", out, "--scn-out", scn)
        for l in ctx.read_trace(out):
            l["n"] += len(all_scns)
            all_lines.append(l)
        all_scns += ctx.read_trace(scn)
        ties["resp"] += info.get("ties_emitted_as_response", 0)
        ties["timeout"] += info.get("ties_emitted_as_timeout", 0)
        stalled += info.get("requests_due_inside_a_stall", 0)
        if info.get("max_outstanding", 0) < 100:
            raise vlib.ToolError("random driver reached only %s outstanding requests" % info.get("max_outstanding"))
    out = ctx.path("trace_random.ndjson")
    with open(out, "w") as f:
        for l in all_lines:
            f.write(json.dumps(l) + "\n")
    validate(ctx, out, all_scns, "random", big=True)
    ctx.cov["scenarios_replayed"] += len(all_scns)
    ctx.cov["responses_exactly_at_deadline"] = ties
    if not ctx.quick:
        # random batches of up to 200 outstanding requests on a manager without timeout
        for k, mode in enumerate(("max", "huge")):
            out = ctx.path("trace_random_nt_%d.ndjson" % k)
            scn = ctx.path("random_nt_%d.ndjson" % k)
            ctx.harness("c07", "random", "--seed", ctx.seed * 1000 + 500 + k, "--batches", 8, "--max", 200, "--timeout", TIMEOUT_MS,
                        "--tmode", mode, "--out", out, "--scn-out", scn)
            scns = ctx.read_trace(scn)
            validate(ctx, out, scns, "random/" + mode, big=True, nt=True)
            ctx.cov["scenarios_replayed"] += len(scns)
    ctx.cov["random_requests_due_inside_a_stall"] = stalled
    if stalled == 0:
        raise vlib.ToolError("random driver produced no stalled requests")
    return ctx.finish()


def replay(ctx, rp):
    if rp.get("kind") == "system":
        composition(ctx)          # re-runs the real system with the recorded seed family
        return ctx.finish(write_evidence=False)
    if rp.get("kind") == "acctlink":
        from props import acctlink
        return acctlink.replay(ctx, rp, {"C07"})
    ctx.build("c07")
    scn = ctx.path("replay_scn.ndjson")
    reps = 5   # tokio's select! order is not seedable: sample it
    with open(scn, "w") as f:
        for _ in range(reps):
            f.write(json.dumps(rp["scenario"]) + "\n")
    out = ctx.path("replay_trace.ndjson")
    ctx.harness("c07", "run", "--scenarios", scn, "--out", out)
    big = max([r["id"] for r in rp["scenario"]["reqs"]] + [0]) > 4
    validate(ctx, out, [rp["scenario"]] * reps, "replay", big=big, nt=rp["scenario"].get("tmode", "finite") != "finite",
             T=rp["scenario"].get("T", TIMEOUT_MS))
    return ctx.finish(write_evidence=False)
