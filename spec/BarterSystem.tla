---------------------------- MODULE BarterSystem ----------------------------
(***************************************************************************)
(* Composition of the components specified separately:                      *)
(*   Engine (order lifecycle of OrderLifecycle.tla, on kinds)               *)
(*     --ExecutionRequest-->  request channel of the ORDER'S exchange       *)
(*     --> that exchange's ExecutionManager (ExecManager.tla: accept,       *)
(*         response or timeout, exactly one account event per request)      *)
(*     --AccountEvent (stamped with that exchange)--> merged feed FIFO      *)
(*     --> Engine::process                                                  *)
(* plus unsolicited exchange reports (fills / cancellations by the venue)   *)
(* and the death of an exchange's execution link (one disconnect notice,    *)
(* the engine marks that exchange's account link - hence global             *)
(* connectivity - unhealthy, the other exchanges' links are untouched).     *)
(*                                                                         *)
(* TRADED and DATA-ONLY exchanges.  The engine tracks every exchange of the *)
(* instrument collection (EXCH), but only the exchanges an execution was    *)
(* added for (TRADED) have a request channel, an ExecutionManager, a client *)
(* and an account link (ExecutionBuilder::build: `None` in the engine's     *)
(* MultiExchangeTxMap for the others, so that slot k of the map still is    *)
(* exchange k).  A data-only exchange (EXCH \ TRADED) contributes market    *)
(* data only:                                                               *)
(*   * no request ever travels for it, nothing is ever answered in its name *)
(*     (Routed);                                                            *)
(*   * its ACCOUNT link health is what EngineState starts every link with - *)
(*     Health::Reconnecting ("down") - and nothing can ever change it: no   *)
(*     account item and no account notice naming it exists.  Global health  *)
(*     is the conjunction over every tracked exchange of both links         *)
(*     (ConnectivityStates: `exchange_states().all(all_healthy)`), so a     *)
(*     system with a data-only exchange is NEVER globally healthy           *)
(*     (NeverGloballyHealthy).  This is what the code does; the property    *)
(*     text of C14 ("healthy exactly when every link is") is read literally: *)
(*     the account link that does not exist is a link that is not healthy.   *)
(*   * its MARKET link is like any other: items mark it healthy, a           *)
(*     disconnect notice marks it reconnecting and invokes the               *)
(*     on-disconnect strategy exactly once, naming that exchange.            *)
(*                                                                         *)
(* The market stream (SpecMkt / NextMkt): the environment delivers, for any *)
(* tracked exchange, market items and market disconnect notices into the    *)
(* same feed (the system's two forwarders share the engine's feed; each     *)
(* source is FIFO, which is all the properties below need).                 *)
(*                                                                         *)
(* Purpose: the closing sentence of C07 - "an order the engine shows as in  *)
(* flight is always eventually resolved" - is a LIVENESS property of the    *)
(* composition: C03 puts the marker, C07 answers every request exactly      *)
(* once, C01 removes the marker when the answer is processed.  Checked by   *)
(* TLC under weak fairness of the manager, the client/timeout race and the  *)
(* engine loop.                                                             *)
(*                                                                         *)
(* Deliberately open (nondeterministic) / outside the model:                *)
(*   * which exchange an order is for, when the environment delivers market *)
(*     items / notices and for which exchange, when links connect and die;  *)
(*   * a request addressed to a DATA-ONLY exchange is not modelled: in the  *)
(*     code it is an unrecoverable send error that stops the engine (DESIGN *)
(*     12.4, observation); home[c] ranges over TRADED only and the drivers  *)
(*     never trade a data-only instrument.  Filter commands that MATCH      *)
(*     data-only instruments holding no orders / positions produce no       *)
(*     request: they are stuttering steps here.                             *)
(*                                                                         *)
(* Code: barter/src/engine/mod.rs (process, update_from_market_stream,      *)
(* update_from_account_stream), action/send_requests.rs, execution/         *)
(* builder.rs (build: the tx map), execution/manager.rs (run: select over   *)
(* request stream / in-flight futures with tokio::time::timeout),           *)
(* engine/state/order/mod.rs, engine/state/connectivity/mod.rs.             *)
(***************************************************************************)
EXTENDS Integers, Sequences, FiniteSets, TLC

CONSTANTS CID,        \* client order ids
          EXCH,       \* every exchange the engine tracks (instruments indexed)
          TRADED,     \* the exchanges with an execution link: own request channel, execution manager and client
          MaxSends,   \* bound on requests the engine may send per id (keeps the model finite)
          MaxKills,   \* bound on execution links the environment may kill
          MaxMkt      \* bound on market-stream events (items + notices) the environment delivers (NextMkt)

ASSUME TRADED \subseteq EXCH
DataOnly == EXCH \ TRADED

NoExch == "none"

VARIABLES orders,     \* [CID -> {"U","OIF","Open","CIFn","CIFo"}]   engine view
          home,       \* [CID -> TRADED \cup {NoExch}]  the exchange of the instrument the order is for
          chan,       \* [TRADED -> request channel engine -> that exchange's execution manager (FIFO)]
          pending,    \* requests accepted by a manager, awaiting response or timeout
          feed,       \* events on their way to the engine (FIFO, all exchanges, account and market merged)
          sends,      \* [CID -> Nat] requests sent so far per id
          answered,   \* ghost: number of account events produced per request
          link,       \* [TRADED -> {"connecting","up","dead"}]  the exchange's execution link (environment)
          conn,       \* [EXCH -> {"up","down"}]  engine view: health of the exchange's account link
                      \*   (starts "down": Health::Reconnecting until the first account item arrives;
                      \*    for a data-only exchange: for ever)
          mlink,      \* [EXCH -> {"none","up","down"}] environment: the last thing the market stream delivered
                      \*   for the exchange - nothing yet / an item / a disconnect notice
          mkt,        \* [EXCH -> {"up","down"}]  engine view: health of the exchange's market-data link
          mk,         \* market-stream events delivered so far
          calls       \* the on-disconnect strategy invocations of the engine's latest processing step
                      \*   (sequence of exchanges)

vars == <<orders, home, chan, pending, feed, sends, answered, link, conn, mlink, mkt, mk, calls>>

\* n = serial number of the request, x = the exchange whose link carries it
Req(k, c, n, x) == [k |-> k, c |-> c, n |-> n, x |-> x]
InFlight(c) == orders[c] \in {"OIF", "CIFn", "CIFo"}
\* feed entries: t in item | snap | notice (account stream) , mitem | mnotice (market stream)
Ev(t, c, kind, x) == [t |-> t, c |-> c, kind |-> kind, x |-> x]
Account(e) == e.t \in {"item", "snap", "notice"}

Init == /\ orders = [c \in CID |-> "U"]
        /\ home = [c \in CID |-> NoExch]
        /\ chan = [x \in TRADED |-> <<>>] /\ pending = {} /\ feed = <<>>
        /\ sends = [c \in CID |-> 0]
        /\ answered = [r \in {} |-> 0]
        /\ link = [x \in TRADED |-> "connecting"]
        /\ conn = [x \in EXCH |-> "down"]
        /\ mlink = [x \in EXCH |-> "none"]
        /\ mkt = [x \in EXCH |-> "down"]
        /\ mk = 0
        /\ calls = <<>>

Serial(c) == sends[c] + 1

(* ---- engine: strategy / commands send requests and mark them in flight (C03); the request ---- *)
(* ---- travels on the channel of the exchange the order's instrument belongs to (C04); only  ---- *)
(* ---- traded exchanges have one                                                             ---- *)
EngineSendOpen(c, x) ==
  /\ orders[c] = "U" /\ sends[c] < MaxSends
  /\ home[c] \in {NoExch, x} /\ link[x] # "dead"
  /\ home' = [home EXCEPT ![c] = x]
  /\ orders' = [orders EXCEPT ![c] = "OIF"]
  /\ chan' = [chan EXCEPT ![x] = Append(@, Req("open", c, Serial(c), x))]
  /\ sends' = [sends EXCEPT ![c] = @ + 1]
  /\ UNCHANGED <<pending, feed, answered, link, conn, mlink, mkt, mk, calls>>

\* (a cancel may be sent for an order that has meanwhile been resolved: the request still travels,
\*  the engine's view of an untracked or already-cancelling order does not change)
EngineSendCancel(c) ==
  /\ sends[c] > 0 /\ sends[c] < MaxSends /\ link[home[c]] # "dead"
  /\ orders' = [orders EXCEPT ![c] = CASE @ = "OIF" -> "CIFn" [] @ = "Open" -> "CIFo" [] OTHER -> @]
  /\ chan' = [chan EXCEPT ![home[c]] = Append(@, Req("cancel", c, Serial(c), home[c]))]
  /\ sends' = [sends EXCEPT ![c] = @ + 1]
  /\ UNCHANGED <<home, pending, feed, answered, link, conn, mlink, mkt, mk, calls>>

(* ---- execution manager of exchange x (C07): accept, then exactly one of response / timeout ---- *)
\* (the manager starts serving requests once its client is connected: ExecutionManager::init
\*  forwards the client's account snapshot first)
MgrAccept(x) ==
  /\ chan[x] # <<>> /\ link[x] # "connecting"
  /\ pending' = pending \cup {Head(chan[x])}
  /\ chan' = [chan EXCEPT ![x] = Tail(@)]
  /\ UNCHANGED <<orders, home, feed, sends, answered, link, conn, mlink, mkt, mk, calls>>

\* the account event carries the exchange of the manager that produced it
Emit(r, kind) == /\ pending' = pending \ {r}
                 /\ feed' = Append(feed, Ev("item", r.c, kind, r.x))
                 /\ answered' = (r :> 1) @@ answered
                 /\ UNCHANGED <<orders, home, chan, sends, link, conn, mlink, mkt, mk, calls>>

\* the client's own answer: open -> open on the book / filled / rejected ; cancel -> ok / err
ClientResponds(r) ==
  /\ r \in pending
  /\ \E res \in (IF r.k = "open" THEN {"open_ok", "open_filled", "open_failed"} ELSE {"cancel_ok", "cancel_err"}) :
        Emit(r, res)
\* no answer before the deadline: a timeout failure
TimeoutFires(r) ==
  /\ r \in pending
  /\ Emit(r, IF r.k = "open" THEN "open_failed" ELSE "cancel_err")

(* ---- the venue reports on its own: an open order fills or is cancelled there ---- *)
VenueReport(c) ==
  /\ orders[c] \in {"Open", "CIFo"} /\ Len(feed) < 2 /\ link[home[c]] # "dead"
  /\ \E k \in {"open_filled", "venue_cancelled"} :
        feed' = Append(feed, Ev("item", c, k, home[c]))
  /\ UNCHANGED <<orders, home, chan, pending, sends, answered, link, conn, mlink, mkt, mk, calls>>

(* ---- the exchange's client connects: its first message is a full account snapshot ---- *)
Connect(x) ==
  /\ link[x] = "connecting"
  /\ link' = [link EXCEPT ![x] = "up"]
  /\ feed' = Append(feed, Ev("snap", "", "", x))
  /\ UNCHANGED <<orders, home, chan, pending, sends, answered, conn, mlink, mkt, mk, calls>>

(* ---- an exchange's execution link dies (its task ends / is killed) once nothing is outstanding ---- *)
(* ---- on it: the account stream delivers exactly ONE disconnect notice naming that exchange      ---- *)
Quiet(x) == chan[x] = <<>> /\ \A r \in pending : r.x # x
KillLink(x) ==
  /\ link[x] = "up" /\ Quiet(x)
  /\ \A j \in 1..Len(feed) : Account(feed[j]) => feed[j].x # x      \* (and once its items have been consumed)
  /\ Cardinality({y \in TRADED : link[y] = "dead"}) < MaxKills
  /\ link' = [link EXCEPT ![x] = "dead"]
  /\ feed' = Append(feed, Ev("notice", "", "", x))
  /\ UNCHANGED <<orders, home, chan, pending, sends, answered, conn, mlink, mkt, mk, calls>>

(* ---- the market stream (environment): an item / a disconnect notice of ANY tracked exchange, ---- *)
(* ---- traded or data-only                                                                      ---- *)
MarketItem(x) ==
  /\ mk < MaxMkt /\ Len(feed) < 2
  /\ mk' = mk + 1
  /\ mlink' = [mlink EXCEPT ![x] = "up"]
  /\ feed' = Append(feed, Ev("mitem", "", "", x))
  /\ UNCHANGED <<orders, home, chan, pending, sends, answered, link, conn, mkt, calls>>
MarketNotice(x) ==
  /\ mk < MaxMkt /\ Len(feed) < 2
  /\ mk' = mk + 1
  /\ mlink' = [mlink EXCEPT ![x] = "down"]
  /\ feed' = Append(feed, Ev("mnotice", "", "", x))
  /\ UNCHANGED <<orders, home, chan, pending, sends, answered, link, conn, mkt, calls>>

(* ---- engine processes one event (C01's transitions on kinds; ConnectivityStates) ---- *)
After(k, ev) ==
  CASE ev = "open_ok"      -> (CASE k \in {"CIFn", "CIFo"} -> "CIFo" [] OTHER -> "Open")
    [] ev \in {"open_filled", "open_failed", "venue_cancelled"} -> "U"
    [] ev = "cancel_ok"    -> "U"
    [] ev = "cancel_err"   -> (CASE k = "CIFo" -> "Open" [] k = "CIFn" -> "U" [] OTHER -> k)

\* the on-disconnect invocations the engine owes for processing e: one per disconnect notice, naming
\* the exchange of the notice - whichever stream delivered it, whether or not that exchange is traded
Owed(e) == IF e.t \in {"notice", "mnotice"} THEN <<e.x>> ELSE <<>>

\* an account item: C01's transition, and the item proves the link alive (C14: healthy again);
\* an account disconnect notice: that exchange's account link is marked down, nothing else changes;
\* a market item / market disconnect notice: the same for that exchange's market-data link
EngineProcess ==
  /\ feed # <<>>
  /\ LET e == Head(feed) IN
       /\ CASE e.t = "item"    -> /\ orders' = [orders EXCEPT ![e.c] = After(@, e.kind)]
                                  /\ conn' = [conn EXCEPT ![e.x] = "up"]
                                  /\ UNCHANGED mkt
            [] e.t = "snap"    -> /\ conn' = [conn EXCEPT ![e.x] = "up"]
                                  /\ UNCHANGED <<orders, mkt>>
            [] e.t = "notice"  -> /\ conn' = [conn EXCEPT ![e.x] = "down"]
                                  /\ UNCHANGED <<orders, mkt>>
            [] e.t = "mitem"   -> /\ mkt' = [mkt EXCEPT ![e.x] = "up"]
                                  /\ UNCHANGED <<orders, conn>>
            [] e.t = "mnotice" -> /\ mkt' = [mkt EXCEPT ![e.x] = "down"]
                                  /\ UNCHANGED <<orders, conn>>
       /\ calls' = Owed(e)
  /\ feed' = Tail(feed)
  /\ UNCHANGED <<home, chan, pending, sends, answered, link, mlink, mk>>

Next == \/ \E c \in CID : (\E x \in TRADED : EngineSendOpen(c, x)) \/ EngineSendCancel(c) \/ VenueReport(c)
        \/ \E x \in TRADED : MgrAccept(x) \/ Connect(x) \/ KillLink(x)
        \/ \E r \in pending : ClientResponds(r) \/ TimeoutFires(r)
        \/ EngineProcess
\* ... with the market stream
NextMkt == Next \/ \E x \in EXCH : MarketItem(x) \/ MarketNotice(x)

Answer(r) == ClientResponds(r) \/ TimeoutFires(r)

Fairness == /\ \A x \in TRADED : WF_vars(MgrAccept(x)) /\ WF_vars(Connect(x))
            /\ WF_vars(EngineProcess)
            /\ \A c \in CID, n \in 1..MaxSends, k \in {"open", "cancel"}, x \in TRADED : WF_vars(Answer(Req(k, c, n, x)))

Spec == Init /\ [][Next]_vars /\ Fairness
\* the same system with the market stream of every tracked exchange (no fairness of the environment)
SpecMkt == Init /\ [][NextMkt]_vars /\ Fairness

\* the same system without fairness of the response/timeout race: used only to show that
\* `Resolved` is not vacuous (TLC must find a counterexample: a request that is never answered)
SpecUnfairAnswer == Init /\ [][Next]_vars /\ (\A x \in TRADED : WF_vars(MgrAccept(x))) /\ WF_vars(EngineProcess)

(***************************************************************************)
(* Properties                                                               *)
(***************************************************************************)
TypeOK == /\ orders \in [CID -> {"U", "OIF", "Open", "CIFn", "CIFo"}]
          /\ home \in [CID -> TRADED \cup {NoExch}]
          /\ \A r \in pending : r.k \in {"open", "cancel"} /\ r.x \in TRADED
          /\ link \in [TRADED -> {"connecting", "up", "dead"}] /\ conn \in [EXCH -> {"up", "down"}]
          /\ mlink \in [EXCH -> {"none", "up", "down"}] /\ mkt \in [EXCH -> {"up", "down"}]
          /\ mk \in 0..MaxMkt /\ calls \in {<<>>} \cup {<<x>> : x \in EXCH}

\* C04 at the level of the composition: a request only ever travels on, is accepted by, and is
\* answered in the name of the exchange its order belongs to; nothing of the account stream bears
\* the name of a data-only exchange
Routed == /\ \A x \in TRADED : \A j \in 1..Len(chan[x]) : chan[x][j].x = x /\ home[chan[x][j].c] = x
          /\ \A r \in pending : home[r.c] = r.x
          /\ \A j \in 1..Len(feed) : feed[j].t = "item" => home[feed[j].c] = feed[j].x
          /\ \A j \in 1..Len(feed) : Account(feed[j]) => feed[j].x \in TRADED

\* C14 at the level of the composition: once the feed has drained, the engine shows an exchange's
\* account link healthy exactly when that link is up - never for a data-only exchange, which has
\* none -, its market link healthy exactly when the last word of the market stream about it was an
\* item, and global health is the conjunction over every tracked exchange of both
GlobalHealthy == \A x \in EXCH : conn[x] = "up" /\ mkt[x] = "up"
ConnMatchesLinks == feed = <<>> => /\ \A x \in TRADED : (conn[x] = "up") <=> (link[x] = "up")
                                   /\ \A x \in EXCH : (mkt[x] = "up") <=> (mlink[x] = "up")
\* (at every moment, not only when drained)
DataOnlyAccountDown == \A x \in DataOnly : conn[x] = "down"
NeverGloballyHealthy == DataOnly # {} => ~GlobalHealthy
\* every link that comes up is seen healthy
Synced == /\ \A x \in TRADED : (link[x] = "up") ~> (conn[x] = "up" \/ link[x] = "dead")
          /\ \A x \in EXCH : (mlink[x] = "up") ~> (mkt[x] = "up" \/ mlink[x] = "down")
\* a dead link is noticed: its disconnect notice is eventually processed
Noticed == /\ \A x \in TRADED : (link[x] = "dead") ~> (conn[x] = "down")
           /\ \A x \in EXCH : (mlink[x] = "down") ~> (mkt[x] = "down" \/ mlink[x] = "up")
\* each disconnect notice invokes the on-disconnect strategy exactly once, for the right exchange -
\* and nothing else does
OnDisconnectExact == [][calls' # calls \/ feed' # feed =>
                          IF feed # <<>> /\ feed' = Tail(feed) THEN calls' = Owed(Head(feed)) ELSE calls' = calls]_vars

\* never two account events for one request (C07 AtMostOne, by construction of Emit)
AtMostOnce == \A r \in DOMAIN answered : answered[r] = 1

\* an in-flight marker always has a request on its way or an answer on its way
InFlightBacked ==
  \A c \in CID : InFlight(c) =>
     \/ \E x \in TRADED : \E j \in 1..Len(chan[x]) : chan[x][j].c = c
     \/ \E r \in pending : r.c = c
     \/ \E j \in 1..Len(feed) : feed[j].c = c

\* C07, last sentence: an order shown as in flight is always eventually resolved
Resolved == \A c \in CID : InFlight(c) ~> ~InFlight(c)
=============================================================================
