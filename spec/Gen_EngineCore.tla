--------------------------- MODULE Gen_EngineCore ---------------------------
(* Scenario generation: random behaviours of EngineCore over the MC alphabet  *)
(* (events drawn with RandomElement), one JSON line per behaviour:            *)
(*   {"init": "Enabled"|"Disabled", "steps": [{"ev":..,"env":..}, ..]}        *)
EXTENDS MC_EngineCore, Json
CONSTANT MaxLen
VARIABLES init, hist, done

gvars == <<st, seq, tick, dl, last, init, hist, done>>

GInit == /\ Init
         /\ init = st.trading
         /\ hist = <<>>
         /\ done = FALSE

GStep == /\ ~done /\ Len(hist) < MaxLen /\ ~tick.terminal
         \* (bound through singleton sets: a LET would re-draw at every reference)
         /\ \E ev \in {RandomElement(MCEvents)}, env \in {RandomElement(MCEnvs)} : Process(ev, env)
         /\ hist' = Append(hist, last')
         /\ UNCHANGED <<init, done>>

GFinish == /\ ~done /\ (Len(hist) = MaxLen \/ tick.terminal)
           /\ done' = TRUE
           /\ UNCHANGED <<st, seq, tick, dl, last, init, hist>>

GSpec == GInit /\ [][GStep \/ GFinish]_gvars

Emit == done => PrintT(<<"SCN", ToJson([init |-> init, steps |-> hist])>>)
=============================================================================
