------------------------------- MODULE Stats -------------------------------
(* C16 - tear-sheet PnL, win rate and profit factor match the closed       *)
(*       positions; every instrument / asset key carries the sheet of ITS  *)
(*       history - including the RATIO figures of the instrument sheet:    *)
(*       rate of return, Sharpe, Sortino and Calmar ratio (section         *)
(*       "ratio figures" below, with its own header).                      *)
(* C17 - running dataset statistics equal the statistics of the whole      *)
(*       dataset.                                                          *)
(*                                                                         *)
(* Reference ("batch") semantics: the state is the HISTORY (what was fed   *)
(* in), every reported figure is DEFINED from the whole history as sets    *)
(* and sums over it (TearSheet, AssetSheet, DataSet).  Beside it the       *)
(* module carries the running accumulators the code keeps                  *)
(*   acc  ~ PnLReturns{pnl_raw,total{count,sum},losses{count,sum}}         *)
(*          barter/src/statistic/summary/pnl.rs  PnLReturns::update         *)
(*   wf   ~ DataSetSummary{count,sum,mean,dispersion.recurrence_relation_m}*)
(*          summary/dataset/mod.rs DataSetSummary::update,                  *)
(*          algorithm.rs welford_online::{calculate_mean,                   *)
(*          calculate_recurrence_relation_m,calculate_population_variance} *)
(* and the two pure calculators WinRate::calculate / ProfitFactor::        *)
(* calculate (metric/win_rate.rs, metric/profit_factor.rs), so that TLC    *)
(* decides on every bounded history that accumulators + calculators, fed   *)
(* with the arguments the property requires (wins = total - losses, gross  *)
(* profit = total sum - loss sum), give exactly the batch figures          *)
(* (AccSheet, WelfordExact).  The implementation is bound to the BATCH     *)
(* definitions only (Pattern B replay): its accumulators are free to be    *)
(* organised differently as long as every reported figure agrees.          *)
(*                                                                         *)
(* Actions: AddClosed(i,pnl,cost,t) InstrumentState::update_from_trade ->  *)
(*                                 TearSheetGenerator::update_from_position*)
(*                                 (t: exit time, seconds since the start  *)
(*                                 of the instrument's session - ANY       *)
(*                                 integer: positions need not be delivered *)
(*                                 in the order of their exit times, see   *)
(*                                 "late exits" below)                     *)
(*          AddBalance(a,total,free) AssetState::update_from_balance ->    *)
(*                                 TearSheetAssetGenerator::update_from_balance *)
(*                                 an ACCEPTED balance snapshot (exchange   *)
(*                                 times do not decrease: freshness is C09's *)
(*                                 subject).  total and free move            *)
(*                                 independently (a resting order locks     *)
(*                                 funds: free falls, total stays; a cancel *)
(*                                 releases them; a fill moves the total);  *)
(*                                 EVERY accepted snapshot is the asset's   *)
(*                                 latest balance and a point of its equity *)
(*                                 curve - also when the total repeats      *)
(*          Generate(rf,iv)        TradingSummaryGenerator::generate(iv) / *)
(*                                 TearSheetGenerator::generate(rf, iv):   *)
(*                                 risk-free return rf, target interval iv *)
(*          Reset(i)               TearSheetGenerator::reset(start): a new *)
(*                                 session of instrument i - every figure  *)
(*                                 afterwards is that of the positions     *)
(*                                 closed since, times counted from the    *)
(*                                 new start                               *)
(*          AddValue(x)            DataSetSummary::update (directly, or as  *)
(*                                 PnLReturns::update does: every return    *)
(*                                 into `total`, the negative ones also     *)
(*                                 into `losses` = DataSet(NegOf(vals)))    *)
(*          Persist                the running generators are serialisable: *)
(*                                 storing and restoring them (serde) is a  *)
(*                                 STUTTER of the abstract state - a        *)
(*                                 restored summary is the same summary,    *)
(*                                 every later figure is still the figure   *)
(*                                 of the whole history (PersistIsStutter)  *)
(*                                                                         *)
(* A closed position is (pnl, cost, t) with cost = price_entry_average *   *)
(* quantity_abs_max > 0 and exit time t; its return is pnl / cost          *)
(* (engine/state/position.rs calculate_pnl_return).                        *)
(* The tear sheet is a function of the CLOSED positions ONLY: a position    *)
(* that is still open - just opened, increased, or partly reduced with PnL  *)
(* already realised - is no part of the history and contributes nothing to  *)
(* any figure until the fill that closes it (the binding generates          *)
(* summaries through the engine while such positions are open).  A starting *)
(* balance given to the builder of the engine state is an AddBalance like   *)
(* any other: the first accepted snapshot of its asset, at session start.   *)
(*                                                                         *)
(* LATE EXITS.  C16 speaks of ANY sequence of closed positions: a position  *)
(* may be delivered after one whose exit time is later (fills redelivered   *)
(* after a reconnect, an exit stamped a few ms before one already processed,*)
(* recorded positions fed out of order; an exit may even pre-date the start *)
(* of the session, t < 0).  k is a LATE exit of h iff some h[j], j < k, has *)
(* h[j].t > h[k].t (IsLate).  The ORDER-FREE figures - PnL, the returns     *)
(* summaries' count / sum / mean / variance (total and losing returns), win *)
(* rate, profit factor and their no-positions / no-wins / no-losses         *)
(* conventions - are functions of the MULTISET of (pnl, cost): they never   *)
(* read an exit time and must hold whatever the delivery order and whatever *)
(* the times (OrderFreeC16, OrderFreeReturns, TimeFreeC16, OrderFreeRatios). *)
(* The bounded models take NEGATIVE steps of the exit time.  Only two things *)
(* depend on time or order; they are defined, with their open points, in    *)
(* the section "ratio figures" (points 4 and 5): the END of the trading     *)
(* period and the PnL curve under Calmar's drawdown.                        *)
(*                                                                         *)
(* PnL, win rate, profit factor, the returns summaries, the dataset         *)
(* statistics: nothing is left nondeterministic, they are functions of the  *)
(* history.  The ratio figures are functions of the history too, except at  *)
(* the five points listed in the header of the section "ratio figures"      *)
(* (points 4 and 5 only for histories with a late exit).  Out of scope (not *)
(* constrained): the drawdown fields of the sheets, their start / end times *)
(* included (C18, Drawdown.tla - whose curves have non-decreasing times),   *)
(* recurrence_relation_m itself.                                            *)
EXTENDS Integers, Sequences, FiniteSets, TLC, Rational

CONSTANTS
  Instr,      \* instrument keys (strings)
  Asset,      \* asset keys (strings)
  PnLs,       \* realised PnL of a closed position (integers)
  Costs,      \* entry cost price*quantity of a closed position (integers > 0)
  Bals,       \* balance totals (integers > 0); the free part of a snapshot: a value of Bals too, not above the total
  Vals,       \* dataset values (integers; the harness concretises k * 10^e)
  MaxClosed,  \* bound on closed positions (all instruments together)
  MaxBal,     \* bound on balance updates (all assets together)
  MaxVals,    \* bound on dataset length
  Gaps,       \* steps of an instrument's exit time from the exit delivered before it (seconds,
              \* integers of EITHER sign: a negative step is a late exit)
  RFs,        \* risk-free returns (rationals)
  Ivs         \* target intervals of a generated sheet (names, a subset of DOMAIN IvLen)

VARIABLES
  closed,     \* [Instr -> Seq([pnl, cost, t])] history of closed positions (t: exit time)
  acc,        \* [Instr -> accumulator]        running PnLReturns
  bal,        \* [Asset -> Seq([total, free])] history of accepted balance snapshots
  out,        \* <<>> or <<summary>>           what the last call returned, if it was Generate
  vals,       \* Seq(Int)                      dataset history
  wf,         \* running Welford accumulator
  last        \* the last event

vars == <<closed, acc, bal, out, vals, wf, last>>
View == <<closed, acc, bal, out, vals, wf>>       \* `last` is observation only

-----------------------------------------------------------------------------
(* generic sums over index sets                                             *)
RECURSIVE RSumOver(_, _), ISumOver(_, _)
RSumOver(f, I) == IF I = {} THEN Zero
                  ELSE LET k == CHOOSE k \in I : TRUE IN Add(f[k], RSumOver(f, I \ {k}))
ISumOver(f, I) == IF I = {} THEN 0
                  ELSE LET k == CHOOSE k \in I : TRUE IN f[k] + ISumOver(f, I \ {k})

Idx(s)  == 1..Len(s)
Perm(s) == {[k \in Idx(s) |-> s[p[k]]] : p \in Permutations(Idx(s))}

\* the losing returns: what PnLReturns keeps in `losses`
NegOf(v) == SelectSeq(v, LAMBDA x : x < 0)

\* optional rational
NoneR    == [has |-> FALSE, v |-> Zero]
SomeR(r) == [has |-> TRUE, v |-> r]

-----------------------------------------------------------------------------
(* C16 - the tear sheet of a history h of closed positions                  *)
Pos(pnl, cost, t) == [pnl |-> pnl, cost |-> cost, t |-> t]
Ret(c)            == Frac(c.pnl, c.cost)
LastT(h)          == IF Len(h) = 0 THEN 0 ELSE h[Len(h)].t     \* exit time of the position delivered LAST (0 = session start)
\* the LATEST exit time delivered (the same as LastT when no position was delivered late)
MaxT(h)           == IF Len(h) = 0 THEN 0
                     ELSE CHOOSE x \in {h[k].t : k \in Idx(h)} : \A k \in Idx(h) : h[k].t <= x
\* late exits: delivered after a position whose exit time is later
IsLate(h, k)      == \E j \in 1..(k - 1) : h[j].t > h[k].t
HasLate(h)        == \E k \in Idx(h) : IsLate(h, k)
\* the history in the order of the exit times (equal times: in the order delivered)
Rank(h, k)        == Cardinality({j \in Idx(h) : h[j].t < h[k].t \/ (h[j].t = h[k].t /\ j <= k)})
Chrono(h)         == [p \in Idx(h) |-> h[CHOOSE k \in Idx(h) : Rank(h, k) = p]]

WinIdx(h)  == {k \in Idx(h) : ~IsNeg(Ret(h[k]))}     \* return not negative
GainIdx(h) == {k \in Idx(h) : IsPos(Ret(h[k]))}
LossIdx(h) == {k \in Idx(h) : IsNeg(Ret(h[k]))}

PnL(h)         == ISumOver([k \in Idx(h) |-> h[k].pnl], Idx(h))
GrossProfit(h) == RSumOver([k \in Idx(h) |-> Ret(h[k])], GainIdx(h))
GrossLoss(h)   == Abs(RSumOver([k \in Idx(h) |-> Ret(h[k])], LossIdx(h)))

WinRate(h) == IF Len(h) = 0 THEN NoneR ELSE SomeR(Frac(Cardinality(WinIdx(h)), Len(h)))

\* profit factor: "none" | "max" (profits, no losses) | "min" (losses, no profits) | "num"
PF(k, v) == [k |-> k, v |-> v]
ProfitFactor(h) ==
  LET p == GrossProfit(h)
      l == GrossLoss(h)
  IN IF IsZero(p) /\ IsZero(l) THEN PF("none", Zero)
     ELSE IF IsZero(l) THEN PF("max", Zero)
     ELSE IF IsZero(p) THEN PF("min", Zero)
     ELSE PF("num", Div(p, l))

TearSheet(h) == [pnl |-> R(PnL(h)), win_rate |-> WinRate(h), profit_factor |-> ProfitFactor(h)]

\* the returns summaries the generator keeps beside the sheet (PnLReturns.total / .losses: public, documented
\* as the summaries of the returns of ALL / of the LOSING closed positions): count, sum, mean
\* (their variances: VarRet / LossVarRet of the section "ratio figures")
RetSum(h, I)  == RSumOver([k \in Idx(h) |-> Ret(h[k])], I)
ReturnsOf(h)  == LET n == Len(h)  l == Cardinality(LossIdx(h))
                 IN [count |-> n, sum |-> RetSum(h, Idx(h)),
                     mean  |-> IF n = 0 THEN Zero ELSE Div(RetSum(h, Idx(h)), R(n)),
                     losses_count |-> l, losses_sum |-> RetSum(h, LossIdx(h)),
                     losses_mean  |-> IF l = 0 THEN Zero ELSE Div(RetSum(h, LossIdx(h)), R(l))]

\* the asset sheet of a history of accepted balance snapshots: balance_end is the LAST snapshot's
\* (total, free) pair; `points`: how many points the equity curve has - its last point is the last
\* snapshot, whether or not the total moved (drawdown fields: Drawdown.tla / C18)
BalOf(total, free) == [total |-> total, free |-> free]
BalPairs      == {x \in Bals \X Bals : x[2] <= x[1]}
AssetSheet(b) == IF b = <<>> THEN [has |-> FALSE, total |-> 0, free |-> 0, points |-> 0]
                 ELSE [has |-> TRUE, total |-> b[Len(b)].total, free |-> b[Len(b)].free, points |-> Len(b)]

SummaryOf(cl, bl) == [instruments |-> [i \in Instr |-> TearSheet(cl[i])],
                      assets      |-> [a \in Asset |-> AssetSheet(bl[a])]]
Summary == SummaryOf(closed, bal)

-----------------------------------------------------------------------------
(* C17 - the statistics of a dataset v (integers), batch definitions        *)
ISum(v)   == ISumOver(v, Idx(v))
MeanOf(v) == IF Len(v) = 0 THEN Zero ELSE Frac(ISum(v), Len(v))
\* two-pass population variance  (1/n) SUM (x - mean)^2  over the common denominator:
\* x - mean = (n x - S)/n
SqDev(v)  == LET n == Len(v) S == ISum(v)
             IN ISumOver([k \in Idx(v) |-> (n * v[k] - S) * (n * v[k] - S)], Idx(v))
VarOf(v)  == IF Len(v) = 0 THEN Zero ELSE Frac(SqDev(v), Len(v) * Len(v) * Len(v))
Elems(v)  == {v[k] : k \in Idx(v)}
Lo(v)     == CHOOSE x \in Elems(v) : \A y \in Elems(v) : x <= y
Hi(v)     == CHOOSE x \in Elems(v) : \A y \in Elems(v) : x >= y
RangeOf(v) == IF Len(v) = 0 THEN [has |-> FALSE, lo |-> 0, hi |-> 0]
              ELSE [has |-> TRUE, lo |-> Lo(v), hi |-> Hi(v)]

DataSet(v) == [count |-> Len(v), sum |-> ISum(v), mean |-> MeanOf(v), var |-> VarOf(v),
               range |-> RangeOf(v)]

(* Welford's recurrences in exact arithmetic                                *)
Wf0 == [n |-> 0, sum |-> 0, mean |-> Zero, m |-> Zero]
WfUpd(w, x) ==
  LET n     == w.n + 1
      mean2 == Add(w.mean, Div(Sub(R(x), w.mean), R(n)))             \* calculate_mean
      m2    == Add(w.m, Mul(Sub(R(x), w.mean), Sub(R(x), mean2)))    \* calculate_recurrence_relation_m
  IN [n |-> n, sum |-> w.sum + x, mean |-> mean2, m |-> m2]
WfVar(w) == IF w.n < 1 THEN Zero ELSE Div(w.m, R(w.n))               \* calculate_population_variance

-----------------------------------------------------------------------------
(* C16 - the RATIO figures of the instrument tear sheet                     *)
(*                                                                          *)
(* Transcribes  barter/src/statistic/metric/rate_of_return.rs, sharpe.rs,   *)
(* sortino.rs, calmar.rs (calculate / scale), statistic/time.rs (the        *)
(* intervals) and the argument choice of TearSheetGenerator::generate       *)
(* (summary/instrument.rs).  Every figure is DEFINED from the whole history *)
(* h of closed positions (pnl, cost, exit time), the risk-free return rf    *)
(* and the target interval iv:                                              *)
(*   mean     = mean of the returns            (MeanOf / VarOf of C17 on    *)
(*   var      = population variance of them     the returns over their      *)
(*   lossvar  = population variance of the      common denominator)         *)
(*              NEGATIVE returns (0 when there are fewer than two)          *)
(*   maxdd    = depth of the largest drawdown, completed or in progress, of *)
(*              the cumulative PnL curve: the reference decomposition of    *)
(*              Drawdown.tla (C18), instantiated here                       *)
(*   period   = max(time of the LATEST exit - session start, 1 s); 1 s for  *)
(*              an empty history (with late exits: open point 4)            *)
(*   excess   = mean - rf                                                   *)
(*   rate of return   = mean                          x  target / period    *)
(*   Sharpe  ratio    = excess / sqrt(var)            x  sqrt(target/period)*)
(*   Sortino ratio    = excess / sqrt(lossvar)        x  sqrt(target/period)*)
(*   Calmar  ratio    = excess / maxdd                x  sqrt(target/period)*)
(* with the documented conventions of `calculate` when the risk is zero:    *)
(*   Sharpe : var = 0      -> Decimal::MAX  (whatever the excess: the code  *)
(*            and its unit test know this one case only)                    *)
(*   Sortino: lossvar = 0  -> MAX if excess > 0, MIN if excess < 0, 0 if    *)
(*   Calmar : maxdd = 0       excess = 0  ("very good" / "very bad" /       *)
(*                            "neutral" in the doc comments and unit tests) *)
(* Square roots are irrational: a figure is kept in SQUARED, FACTORED form  *)
(*   [k, sign, sq, fac]   value = sign * sqrt(sq * fac)     for k = "num"   *)
(*     sq  = excess^2 / var | excess^2 / lossvar | excess^2 / maxdd^2       *)
(*     fac = target / period  (a reduced fraction of seconds: never         *)
(*           multiplied into sq, TLC has 32-bit integers)                   *)
(* so that the value laws  ratio^2 * variance = (mean - rf)^2  (with the    *)
(* sign) and  scaled^2 * period = ratio^2 * target  are exact (Conventions).*)
(* The rate of return is [v, fac] with value v * fac (linear scaling).      *)
(* A sentinel (k = "MAX" / "MIN") stands for "better / worse than any       *)
(* number": scaling by a positive factor keeps it what it is - in           *)
(* particular it never changes its sign.                                    *)
(*                                                                          *)
(* LEFT OPEN (explicitly; everything else is a function of the history):    *)
(*  1. a sentinel scaled DOWN (period longer than the target interval, the  *)
(*     scale factor sqrt(target/period) is < 1): the code multiplies        *)
(*     Decimal::MAX by the factor and reports a finite huge number; the     *)
(*     documents do not say whether the sentinel or the product is meant.   *)
(*     For a sentinel, `fac` is the lower end lo = min(1, target/period) of *)
(*     the allowed magnitudes: any value of the sentinel's sign with        *)
(*     magnitude in [MAX * sqrt(lo), MAX].  lo = 1 (scaled up or not at     *)
(*     all): the sentinel itself, nothing else.                             *)
(*  2. zero risk AND excess exactly zero in a history of three or more      *)
(*     positions: the documented value is 0, but whether the code sees      *)
(*     "equal" is decided by the decimal rounding of its running mean       *)
(*     (which divides by 3, 6, 7 .. from the third position on): k = "any". *)
(*     With at most two positions the decimal arithmetic is exact and 0 is  *)
(*     required.                                                            *)
(*  3. Calmar when the PnL curve declines from a running maximum that is    *)
(*     not positive: a relative decline from a peak <= 0 is not defined     *)
(*     (C18 speaks of curves with positive peaks only): k = "any".  A peak  *)
(*     <= 0 that is not followed by a lower point has depth 0 on every      *)
(*     reading and is constrained.                                          *)
(*  4. the END of the trading period when a position was delivered LATE.    *)
(*     The generator's field is documented as "Trading session end time     *)
(*     defined by the Engine clock".  The code stamps it with the exit time  *)
(*     of the position delivered LAST (`time_engine_now = position.         *)
(*     time_exit`: it moves BACK on a late exit); the engine clock the       *)
(*     comment names never moves back, which reads as the LATEST exit        *)
(*     delivered.  The documents do not decide: the period of a generated    *)
(*     sheet ends at one of the two (reading p = "last" | "max").  They      *)
(*     coincide whenever the position delivered last is also the latest -    *)
(*     in particular in every history without a late exit, where nothing is  *)
(*     open.  An exit that pre-dates the session start (t < 0) gives the     *)
(*     minimum period of 1 s on both readings.                               *)
(*  5. the PnL curve under Calmar's drawdown when a position was delivered   *)
(*     LATE: the cumulative PnL in the order DELIVERED (what the code's      *)
(*     running drawdown generator sees) or in the order of the EXIT TIMES    *)
(*     (the chronological curve; equal times in the order delivered) -       *)
(*     reading c = "delivered" | "chrono".  Calmar is the only figure that   *)
(*     depends on the path; the two curves are the same sequence unless      *)
(*     there is a late exit.                                                 *)
(*     ONE reading (p, c) per generated sheet: its four figures agree on     *)
(*     the period.  A history without a late exit has exactly one sheet      *)
(*     (MonotoneDetermined): nothing of points 4 and 5 weakens it.           *)
(* Assumed: exit times are whole seconds; risk-free returns and returns are  *)
(* finite decimals.                                                          *)

\* the target intervals (statistic/time.rs), in seconds; Hours2 and Days500 stand for the
\* custom TimeDelta intervals the binding uses
IvLen == [Daily |-> 86400, Annual252 |-> 21772800, Annual365 |-> 31536000,
          Hours2 |-> 7200, Days500 |-> 43200000]

\* fraction arithmetic that cancels BEFORE it multiplies (module Rational multiplies first):
\* no intermediate is larger than the reduced result
MulX(a, b) == IF a[1] = 0 \/ b[1] = 0 THEN Zero
              ELSE LET g1 == GCD(AbsI(a[1]), b[2])
                       g2 == GCD(AbsI(b[1]), a[2])
                   IN <<(a[1] \div g1) * (b[1] \div g2), (a[2] \div g2) * (b[2] \div g1)>>
Inv(b)     == IF b[1] < 0 THEN <<-b[2], -b[1]>> ELSE <<b[2], b[1]>>          \* b # 0
DivX(a, b) == MulX(a, Inv(b))
AddX(a, b) == LET g == GCD(a[2], b[2])
              IN Norm(a[1] * (b[2] \div g) + b[1] * (a[2] \div g), (a[2] \div g) * b[2])
SubX(a, b) == AddX(a, Neg(b))
Sq(a)      == <<a[1] * a[1], a[2] * a[2]>>

\* ---- the base quantities of a history h
RECURSIVE LCMOf(_)
LCMOf(S)   == IF S = {} THEN 1
              ELSE LET x == CHOOSE x \in S : TRUE  r == LCMOf(S \ {x}) IN (x \div GCD(x, r)) * r
CostLCM(h) == LCMOf({h[k].cost : k \in Idx(h)})
\* the returns over their common denominator CostLCM(h): integers, a dataset of C17
RetInts(h) == [k \in Idx(h) |-> h[k].pnl * (CostLCM(h) \div h[k].cost)]
MeanRet(h)    == IF Len(h) = 0 THEN Zero ELSE DivX(MeanOf(RetInts(h)), R(CostLCM(h)))
VarRet(h)     == IF Len(h) = 0 THEN Zero ELSE DivX(VarOf(RetInts(h)), R(CostLCM(h) * CostLCM(h)))
LossVarRet(h) == LET v == NegOf(RetInts(h))
                 IN IF Len(v) = 0 THEN Zero ELSE DivX(VarOf(v), R(CostLCM(h) * CostLCM(h)))
PeriodOf(t)   == IF t > 1 THEN t ELSE 1
Period(h)     == PeriodOf(LastT(h))          \* (the reading of the code: open point 4)

\* the cumulative PnL curve and its drawdowns: the reference decomposition of Drawdown.tla
DDm == INSTANCE Drawdown WITH Values <- {}, NegMag <- {}, Gaps <- {}, MaxLen <- 0, MaxResets <- 0,
                              curve <- <<>>, gen <- 0, emitted <- <<>>, seen <- 0, sess <- 0, last <- 0
Curve(h) == [k \in Idx(h) |-> [t |-> h[k].t, v |-> ISumOver([j \in 1..k |-> h[j].pnl], 1..k)]]
\* open point 3: a lower point behind a running maximum that is not positive, before the next one
UndefinedDD(c) == \E p \in DDm!Records(c), j \in Idx(c) :
                     /\ c[p].v <= 0 /\ p < j /\ c[j].v < c[p].v
                     /\ \A r \in DDm!Records(c) : ~(p < r /\ r <= j)
\* the depth of the largest drawdown, completed or in progress: by the reference sets of C18 ...
MaxDepthRef(c) == LET S == DDm!ReportedFin(c)
                  IN IF S = {} THEN Zero ELSE (CHOOSE d \in DDm!MaxSet(S) : TRUE).value
\* ... and directly, the deepest decline of any period between two running maxima (the same value,
\* MaxDepthIsRef; an order of magnitude cheaper for TLC to evaluate)
MaxDepth(c) == IF Len(c) = 0 THEN Zero
               ELSE LET Rs == DDm!Records(c)
                        end(p) == LET later == {r \in Rs : r > p}
                                  IN IF later = {} THEN Len(c) ELSE (CHOOSE r \in later : \A q \in later : r <= q) - 1
                    IN DDm!RMaxOver([p \in Rs |-> DDm!Depth(c, p, end(p))], Rs)

\* ---- figures
FNum(s, sq) == [k |-> "num", sign |-> s, sq |-> sq, fac |-> One]
FMax        == [k |-> "MAX", sign |-> 1,  sq |-> Zero, fac |-> One]
FMin        == [k |-> "MIN", sign |-> -1, sq |-> Zero, fac |-> One]
FAny        == [k |-> "any", sign |-> 0,  sq |-> Zero, fac |-> One]
Ror(v)      == [v |-> v, fac |-> One]

\* the sign cases of Sortino / Calmar at zero risk; n = number of positions (open point 2)
SignCase(ex, n) == IF IsPos(ex) THEN FMax
                   ELSE IF IsNeg(ex) THEN FMin
                   ELSE IF n <= 2 THEN FNum(0, Zero) ELSE FAny
\* XRatio::calculate, on the SQUARE of the risk (variance) resp. the risk itself (drawdown)
SharpeCalc(rf, mean, var) ==
  IF IsZero(var) THEN FMax
  ELSE LET ex == SubX(mean, rf) IN FNum(Sign(ex), DivX(Sq(ex), var))
SortinoCalc(rf, mean, lossvar, n) ==
  LET ex == SubX(mean, rf)
  IN IF IsZero(lossvar) THEN SignCase(ex, n) ELSE FNum(Sign(ex), DivX(Sq(ex), lossvar))
CalmarCalc(rf, mean, maxdd, n) ==
  LET ex == SubX(mean, rf)
  IN IF IsZero(maxdd) THEN SignCase(ex, n) ELSE FNum(Sign(ex), DivX(Sq(ex), Sq(maxdd)))
RorCalc(mean) == Ror(mean)

\* XRatio::scale from an interval of `cur` seconds to one of `target` seconds: the value is
\* multiplied by sqrt(target / cur) - the radicand factor by target / cur; a sentinel stays the
\* sentinel, with its lower end moving down when the factor is < 1 (open point 1)
ScaleFig(f, cur, target) ==
  LET r == Frac(target, cur)
  IN CASE f.k = "num"            -> [f EXCEPT !.fac = MulX(@, r)]
       [] f.k \in {"MAX", "MIN"} -> [f EXCEPT !.fac = RMin(One, MulX(@, r))]
       [] OTHER                  -> f
\* RateOfReturn::scale: linear
ScaleRor(f, cur, target) == [f EXCEPT !.fac = MulX(@, Frac(target, cur))]

\* ---- the readings of open points 4 and 5
Readings    == [p : {"last", "max"}, c : {"delivered", "chrono"}]
CodeReading == [p |-> "last", c |-> "delivered"]              \* what the code does today
HistR(h, rd)   == IF rd.c = "chrono" THEN Chrono(h) ELSE h
PeriodR(h, rd) == PeriodOf(IF rd.p = "last" THEN LastT(h) ELSE MaxT(h))
DDOf(c)     == LET u == UndefinedDD(c) IN [undef |-> u, maxdd |-> IF u THEN Zero ELSE MaxDepth(c)]

\* what the four figures depend on, of the history h, on every reading (evaluated once per history: TLC
\* does not remember the value of an operator application)
BaseAll(h) == LET late == HasLate(h)  dD == DDOf(Curve(h))
              IN [n |-> Len(h), mean |-> MeanRet(h), var |-> VarRet(h), lossvar |-> LossVarRet(h), late |-> late,
                  ddD |-> dD, ddC |-> IF late THEN DDOf(Curve(Chrono(h))) ELSE dD,
                  pL |-> PeriodOf(LastT(h)), pM |-> PeriodOf(MaxT(h))]
\* ... on ONE reading
ViewOf(B, rd) == LET d == IF rd.c = "chrono" THEN B.ddC ELSE B.ddD
               IN [n |-> B.n, mean |-> B.mean, var |-> B.var, lossvar |-> B.lossvar,
                   undef |-> d.undef, maxdd |-> d.maxdd, period |-> IF rd.p = "last" THEN B.pL ELSE B.pM]
\* the readings that can differ: all four with a late exit in the history, otherwise one (MonotoneDetermined)
ReadingsOf(B) == IF B.late THEN Readings ELSE {CodeReading}
Base(h) == ViewOf(BaseAll(h), CodeReading)
\* the four ratio figures of the sheet generate(rf, iv) reports for a history with base b
SheetOfBase(b, rf, iv) ==
  LET T == IvLen[iv]
  IN [pnl_return    |-> ScaleRor(RorCalc(b.mean), b.period, T),
      sharpe_ratio  |-> ScaleFig(SharpeCalc(rf, b.mean, b.var), b.period, T),
      sortino_ratio |-> ScaleFig(SortinoCalc(rf, b.mean, b.lossvar, b.n), b.period, T),
      calmar_ratio  |-> IF b.undef THEN FAny
                        ELSE ScaleFig(CalmarCalc(rf, b.mean, b.maxdd, b.n), b.period, T)]
RatioSheet(h, rf, iv)  == SheetOfBase(Base(h), rf, iv)                               \* on the reading of the code
RatioSheetR(h, rd, rf, iv) == SheetOfBase(ViewOf(BaseAll(h), rd), rf, iv)
\* the sheets generate(rf, iv) may report for the history h
RatioSheets(h, rf, iv) == LET B == BaseAll(h) IN {SheetOfBase(ViewOf(B, rd), rf, iv) : rd \in ReadingsOf(B)}

\* which row of the convention tables a figure comes from (coverage of the tables, signatures)
SignName(ex) == IF IsPos(ex) THEN "pos" ELSE IF IsNeg(ex) THEN "neg" ELSE "zero"
CaseOfBase(b, rf) ==
  LET ex == SignName(SubX(b.mean, rf))
  IN [sharpe_ratio  |-> IF IsZero(b.var) THEN "zero_std_dev:" \o ex ELSE "num",
      sortino_ratio |-> IF IsZero(b.lossvar) THEN "zero_downside_dev:" \o ex ELSE "num",
      calmar_ratio  |-> IF b.undef THEN "undefined_drawdown"
                        ELSE IF IsZero(b.maxdd) THEN "zero_drawdown:" \o ex ELSE "num"]
ScaleCaseOfBase(b, iv) == IF IvLen[iv] > b.period THEN "up" ELSE IF IvLen[iv] = b.period THEN "same" ELSE "down"

-----------------------------------------------------------------------------
(* the running accumulators and the calculators, as the code has them       *)
\* Welford's recurrences (WfUpd of C17) on fractions: DataSetSummary::update of a return
WfR0 == [n |-> 0, mean |-> Zero, m |-> Zero]
WfUpdR(w, x) ==
  LET n     == w.n + 1
      mean2 == AddX(w.mean, DivX(SubX(x, w.mean), R(n)))
      m2    == AddX(w.m, MulX(SubX(x, w.mean), SubX(x, mean2)))
  IN [n |-> n, mean |-> mean2, m |-> m2]
WfVarR(w) == IF w.n < 1 THEN Zero ELSE DivX(w.m, R(w.n))
\* DrawdownGenerator::update on the PnL curve, MaxDrawdownGenerator::update with what it emits:
\* peak, deepest decline since the peak (cur), deepest completed drawdown (best)
DD0 == [has |-> FALSE, peak |-> 0, cur |-> Zero, best |-> Zero]
DDUpd(d, v) ==
  IF ~d.has THEN [d EXCEPT !.has = TRUE, !.peak = v]
  ELSE IF v > d.peak THEN [d EXCEPT !.peak = v, !.cur = Zero, !.best = RMax(d.best, d.cur)]
  ELSE IF d.peak = 0 THEN d                            \* checked_div by a zero peak: no decline recorded
  ELSE LET c == Frac(d.peak - v, d.peak) IN [d EXCEPT !.cur = IF Gt(c, d.cur) THEN c ELSE d.cur]

Acc0 == [pnl |-> 0, n |-> 0, sum |-> Zero, ln |-> 0, lsum |-> Zero,
         w |-> WfR0, lw |-> WfR0, dd |-> DD0, tl |-> 0]
AccUpd(a, c) ==                                   \* PnLReturns::update, TearSheetGenerator::update_from_position
  LET r == Ret(c)
  IN [pnl  |-> a.pnl + c.pnl,
      n    |-> a.n + 1,
      sum  |-> Add(a.sum, r),
      ln   |-> IF IsNeg(r) THEN a.ln + 1 ELSE a.ln,
      lsum |-> IF IsNeg(r) THEN Add(a.lsum, r) ELSE a.lsum,
      w    |-> WfUpdR(a.w, r),
      lw   |-> IF IsNeg(r) THEN WfUpdR(a.lw, r) ELSE a.lw,
      dd   |-> DDUpd(a.dd, a.pnl + c.pnl),
      tl   |-> c.t]

WinRateCalc(wins, total) ==                       \* WinRate::calculate
  IF total = 0 THEN NoneR ELSE SomeR(Frac(AbsI(wins), AbsI(total)))
PFCalc(p, l) ==                                   \* ProfitFactor::calculate
  IF IsZero(p) /\ IsZero(l) THEN PF("none", Zero)
  ELSE IF IsZero(l) THEN PF("max", Zero)
  ELSE IF IsZero(p) THEN PF("min", Zero)
  ELSE PF("num", Div(Abs(p), Abs(l)))

\* the arguments the property requires generate() to pass
SheetOfAcc(a) == [pnl           |-> R(a.pnl),
                  win_rate      |-> WinRateCalc(a.n - a.ln, a.n),
                  profit_factor |-> PFCalc(Sub(a.sum, a.lsum), a.lsum)]
\* ... and for the ratio figures: mean and variance of ALL returns for Sharpe, the variance of the
\* LOSING returns for Sortino, the largest drawdown INCLUDING the one in progress for Calmar, the
\* period from the session start to the latest exit
RatiosOfAcc(a, rf, iv) ==
  LET p == IF a.tl > 1 THEN a.tl ELSE 1  T == IvLen[iv]
  IN [pnl_return    |-> ScaleRor(RorCalc(a.w.mean), p, T),
      sharpe_ratio  |-> ScaleFig(SharpeCalc(rf, a.w.mean, WfVarR(a.w)), p, T),
      sortino_ratio |-> ScaleFig(SortinoCalc(rf, a.w.mean, WfVarR(a.lw), a.n), p, T),
      calmar_ratio  |-> ScaleFig(CalmarCalc(rf, a.w.mean, RMax(a.dd.best, a.dd.cur), a.n), p, T)]

-----------------------------------------------------------------------------
Ev(a, k, x, y) == [a |-> a, k |-> k, x |-> x, y |-> y]

Init == /\ closed = [i \in Instr |-> <<>>]
        /\ acc    = [i \in Instr |-> Acc0]
        /\ bal    = [a \in Asset |-> <<>>]
        /\ out    = <<>>
        /\ vals   = <<>>
        /\ wf     = Wf0
        /\ last   = Ev("Init", "", 0, 0)

NClosed == ISumOver([i \in Instr |-> Len(closed[i])], Instr)
NBal    == ISumOver([a \in Asset |-> Len(bal[a])], Asset)

\* (the history part alone - the behaviour generator Gen_Stats takes its expectations from the
\*  batch definitions and leaves the running accumulators, exact fractions that grow with the
\*  length of the history, where they are)
AddClosedH(i, pnl, cost, t) ==
  /\ closed' = [closed EXCEPT ![i] = Append(@, Pos(pnl, cost, t))]
  /\ out'    = <<>>
  /\ last'   = Ev("AddClosed", i, pnl, cost)
  /\ UNCHANGED <<bal, vals, wf>>
AddClosed(i, pnl, cost, t) ==
  /\ AddClosedH(i, pnl, cost, t)
  /\ acc'    = [acc EXCEPT ![i] = AccUpd(@, Pos(pnl, cost, t))]

AddBalance(a, total, free) ==
  /\ bal'  = [bal EXCEPT ![a] = Append(@, BalOf(total, free))]
  /\ out'  = <<>>
  /\ last' = Ev("AddBalance", a, total, free)
  /\ UNCHANGED <<closed, acc, vals, wf>>

\* the summary generate(rf, iv) returns: the sheets above plus, per instrument, the ratio figures
\* rd: the reading of open points 4 and 5 each instrument's sheet is generated on
FullSummary(cl, bl, rf, iv, rd) ==
  LET S == SummaryOf(cl, bl)
  IN [rf |-> rf, iv |-> iv, instruments |-> S.instruments, assets |-> S.assets,
      returns |-> [i \in Instr |-> ReturnsOf(cl[i])],
      ratios |-> [i \in Instr |-> RatioSheetR(cl[i], rd[i], rf, iv)]]
GenerateS(S) ==
  /\ out'  = <<S>>
  /\ last' = Ev("Generate", "", 0, 0)
  /\ UNCHANGED <<closed, acc, bal, vals, wf>>
\* (the nondeterministic choice of open points 4 and 5: one reading per instrument sheet; the choices
\*  give the same summary unless that instrument's history has a late exit)
Generate(rf, iv) == LET L == {i \in Instr : HasLate(closed[i])}
                    IN \E rl \in [L -> Readings] :
                          GenerateS(FullSummary(closed, bal, rf, iv, [i \in Instr |-> IF i \in L THEN rl[i] ELSE CodeReading]))

\* a new session of instrument i: TearSheetGenerator::reset
ResetH(i) ==
  /\ closed' = [closed EXCEPT ![i] = <<>>]
  /\ out'    = <<>>
  /\ last'   = Ev("Reset", i, 0, 0)
  /\ UNCHANGED <<bal, vals, wf>>
Reset(i) == ResetH(i) /\ acc' = [acc EXCEPT ![i] = Acc0]

AddValue(x) ==
  /\ vals' = Append(vals, x)
  /\ wf'   = WfUpd(wf, x)
  /\ last' = Ev("AddValue", "", x, 0)
  /\ UNCHANGED <<closed, acc, bal, out>>

\* store + restore of the running generators: nothing the figures depend on changes
Persist ==
  /\ last' = Ev("Persist", "", 0, 0)
  /\ UNCHANGED <<closed, acc, bal, out, vals, wf>>

AddClosedAny  == \E i \in Instr, p \in PnLs, c \in Costs, g \in Gaps :
                    NClosed < MaxClosed /\ AddClosed(i, p, c, LastT(closed[i]) + g)
AddBalanceAny == \E a \in Asset, b \in BalPairs : NBal < MaxBal /\ AddBalance(a, b[1], b[2])
GenerateAny   == out = <<>> /\ \E rf \in RFs, iv \in Ivs : Generate(rf, iv)
ResetAny      == \E i \in Instr : closed[i] # <<>> /\ Reset(i)
AddValueAny   == \E x \in Vals : Len(vals) < MaxVals /\ AddValue(x)

PersistAny    == last.a # "Persist" /\ last.a # "Init" /\ Persist

NextC16 == AddClosedAny \/ AddBalanceAny \/ GenerateAny \/ PersistAny
\* ... with new sessions (a reset leads back to histories the model has anyway: the large models leave it
\* to the small one and to SpecHist)
NextC16R == NextC16 \/ ResetAny
SpecC16R == Init /\ [][NextC16R]_vars
\* the histories alone (the ratio laws are state formulas over them)
NextHist == AddClosedAny \/ ResetAny
SpecHist == Init /\ [][NextHist]_vars
NextC17 == AddValueAny \/ PersistAny
SpecC16 == Init /\ [][NextC16]_vars
SpecC17 == Init /\ [][NextC17]_vars

-----------------------------------------------------------------------------
(* C16 formulas                                                             *)
TypeC16 ==
  /\ \A i \in Instr : \A k \in Idx(closed[i]) : closed[i][k].pnl \in PnLs /\ closed[i][k].cost \in Costs
  /\ \A i \in Instr : \A k \in Idx(closed[i]) : closed[i][k].t \in Int        \* any order of the exit times
  /\ \A a \in Asset : \A k \in Idx(bal[a]) : <<bal[a][k].total, bal[a][k].free>> \in BalPairs
  /\ Len(out) <= 1

\* a store / restore changes no figure, now or later (the figures are functions of the histories)
PersistIsStutter == [][last'.a = "Persist" =>
                         /\ SummaryOf(closed', bal') = SummaryOf(closed, bal) /\ acc' = acc /\ out' = out
                         /\ closed' = closed          \* hence every ratio figure, for every rf and interval
                         /\ DataSet(vals') = DataSet(vals) /\ DataSet(NegOf(vals')) = DataSet(NegOf(vals)) /\ wf' = wf]_vars

\* a generated summary is the summary of the histories, key by key
GenerateIsBatch == out # <<>> =>
  /\ \A i \in Instr : out[1].instruments[i] = TearSheet(closed[i])
  /\ \A i \in Instr : out[1].returns[i] = ReturnsOf(closed[i])
  /\ \A i \in Instr : out[1].ratios[i] \in RatioSheets(closed[i], out[1].rf, out[1].iv)
  /\ \A i \in Instr : ~HasLate(closed[i]) => out[1].ratios[i] = RatioSheet(closed[i], out[1].rf, out[1].iv)
  /\ \A a \in Asset : out[1].assets[a] = AssetSheet(bal[a])

\* the running accumulators with the required arguments give the batch sheet
AccSheet == \A i \in Instr : SheetOfAcc(acc[i]) = TearSheet(closed[i])
\* ... and ARE the batch returns summaries (count, sum, running mean; all returns and the losing ones)
AccReturns == \A i \in Instr :
  LET a == acc[i]  r == ReturnsOf(closed[i])
  IN /\ a.n = r.count /\ a.sum = r.sum /\ a.w.mean = r.mean /\ a.w.n = r.count
     /\ a.ln = r.losses_count /\ a.lsum = r.losses_sum /\ a.lw.mean = r.losses_mean /\ a.lw.n = r.losses_count
     /\ a.w.mean = MeanRet(closed[i])

WinRateSane == \A i \in Instr :
  LET h == closed[i] w == WinRate(h)
  IN /\ w.has <=> Len(h) > 0
     /\ w.has => /\ Geq(w.v, Zero) /\ Leq(w.v, One)
                 /\ (w.v = One  <=> LossIdx(h) = {})
                 /\ (w.v = Zero <=> WinIdx(h) = {})
                 \* wins and losses partition the history
                 /\ Add(w.v, Frac(Cardinality(LossIdx(h)), Len(h))) = One

ProfitFactorSane == \A i \in Instr :
  LET h == closed[i] f == ProfitFactor(h)
      total == RSumOver([k \in Idx(h) |-> Ret(h[k])], Idx(h))
  IN /\ (f.k = "none" <=> GainIdx(h) = {} /\ LossIdx(h) = {})
     /\ (f.k = "max"  <=> GainIdx(h) # {} /\ LossIdx(h) = {})
     /\ (f.k = "min"  <=> GainIdx(h) = {} /\ LossIdx(h) # {})
     /\ (f.k = "num"  => /\ IsPos(f.v)
                         /\ (Gt(f.v, One) <=> IsPos(total))     \* > 1 iff profitable
                         /\ (f.v = One <=> IsZero(total)))
     \* gross profit - gross loss = sum of all returns
     /\ Sub(GrossProfit(h), GrossLoss(h)) = total

\* the figures do not depend on the order in which positions were closed or delivered (a permutation moves
\* the exit times with the positions: every time order of the same positions) ...
OrderFreeC16 == \A i \in Instr : \A g \in Perm(closed[i]) : TearSheet(g) = TearSheet(closed[i])
\* (the returns summaries likewise; a formula of its own - the smaller models check it - because the
\*  permutations of a long history are many)
OrderFreeReturns == \A i \in Instr : \A g \in Perm(closed[i]) : ReturnsOf(g) = ReturnsOf(closed[i])
\* ... nor on the exit times at all
TimeFreeC16  == \A i \in Instr :
                   LET h == closed[i]
                       z == [k \in Idx(h) |-> Pos(h[k].pnl, h[k].cost, 0)]         \* every position closed at the session start
                       r == [k \in Idx(h) |-> Pos(h[k].pnl, h[k].cost, h[Len(h) + 1 - k].t)]   \* the times in reverse
                   IN /\ TearSheet(z) = TearSheet(h) /\ ReturnsOf(z) = ReturnsOf(h)
                      /\ TearSheet(r) = TearSheet(h) /\ ReturnsOf(r) = ReturnsOf(h)

\* an event for key k leaves the sheet of every other key unchanged
Keyed == [][/\ \A i \in Instr : i # last'.k => TearSheet(closed'[i]) = TearSheet(closed[i])
            /\ \A a \in Asset : a # last'.k => AssetSheet(bal'[a]) = AssetSheet(bal[a])]_vars
Additive == [][last'.a = "AddClosed" =>
               PnL(closed'[last'.k]) = PnL(closed[last'.k]) + last'.x]_vars
LatestBalance == [][last'.a = "AddBalance" =>
               AssetSheet(bal'[last'.k]) = [has |-> TRUE, total |-> last'.x, free |-> last'.y,
                                            points |-> Len(bal[last'.k]) + 1]]_vars
\* every accepted snapshot counts: it is the latest balance and one more point of the equity curve, whether the
\* total moved, only the free part moved, or nothing moved at all
EveryBalanceCounts == [][last'.a = "AddBalance" =>
               LET b == bal[last'.k]  s == AssetSheet(bal'[last'.k])
               IN /\ s.points = AssetSheet(b).points + 1
                  /\ (b # <<>> /\ b[Len(b)].total = last'.x) => (s.total = AssetSheet(b).total /\ s.free = last'.y)]_vars

\* ---- the ratio figures
\* the running accumulators with the arguments generate() must pass give the batch figures ON THE READING OF
\* THE CODE (the period ends at the exit delivered last, the curve is the one delivered; Calmar wherever the
\* batch figure is defined - open point 3)
AccRatiosS(i, b, rf, iv) ==
  LET r == RatiosOfAcc(acc[i], rf, iv)
  IN /\ r.pnl_return = b.pnl_return /\ r.sharpe_ratio = b.sharpe_ratio /\ r.sortino_ratio = b.sortino_ratio
     /\ b.calmar_ratio.k # "any" => r.calmar_ratio = b.calmar_ratio

\* the convention tables and the value laws, figure by figure
RiskLaw(f, ex, risk2, n, T, p) ==      \* risk2: the square of the risk; T target, p period (seconds)
  /\ f.k \in {"num", "MAX", "MIN", "any"}
  /\ ~IsZero(risk2) => /\ f.k = "num" /\ f.sign = Sign(ex)
                       /\ MulX(f.sq, risk2) = Sq(ex)                  \* ratio^2 * risk^2 = (mean - rf)^2
  /\ f.k = "num" => MulX(f.fac, R(p)) = R(T)                           \* scaled^2 * period = ratio^2 * target
  /\ f.k \in {"MAX", "MIN"} => /\ f.sign = (IF f.k = "MAX" THEN 1 ELSE -1)    \* a sentinel keeps its sign
                               /\ f.fac = (IF T >= p THEN One ELSE Frac(T, p))
  /\ f.k = "any" => IsZero(risk2) /\ IsZero(ex) /\ n >= 3
SignTable(f, ex, n) ==                  \* zero risk: Sortino, Calmar
  /\ IsPos(ex) => f.k = "MAX"
  /\ IsNeg(ex) => f.k = "MIN"
  /\ (IsZero(ex) /\ n <= 2) => f.k = "num" /\ f.sign = 0 /\ IsZero(f.sq)
\* (rd: the reading b was taken on; s: the sheet of b)
ConventionsS(i, rd, b, s, rf, iv) ==
  LET h == closed[i]  ex == SubX(b.mean, rf)
      n == Len(h)  T == IvLen[iv]  p == b.period
  IN /\ s.pnl_return.v = b.mean /\ MulX(s.pnl_return.fac, R(p)) = R(T)
     /\ RiskLaw(s.sharpe_ratio, ex, b.var, 0, T, p)
     /\ IsZero(b.var) => s.sharpe_ratio.k = "MAX"
     /\ RiskLaw(s.sortino_ratio, ex, b.lossvar, n, T, p)
     /\ IsZero(b.lossvar) => SignTable(s.sortino_ratio, ex, n)
     /\ b.undef => s.calmar_ratio = FAny
     /\ ~b.undef => /\ RiskLaw(s.calmar_ratio, ex, Sq(b.maxdd), n, T, p)
                    /\ IsZero(b.maxdd) => SignTable(s.calmar_ratio, ex, n)
     \* the period: from the session start to the end of the session, at least one second ...
     /\ p >= 1
     \* ... which is the exit delivered last (open point 4, reading "last") ...
     /\ rd.p = "last" => /\ (n > 0 /\ h[n].t >= 1) => p = h[n].t
                         /\ (n = 0 \/ h[n].t < 1) => p = 1
     \* ... or the latest exit delivered (reading "max")
     /\ rd.p = "max"  => /\ \A k \in Idx(h) : h[k].t <= p
                         /\ p > 1 => \E k \in Idx(h) : h[k].t = p
     \* without a late exit: the LATEST exit, which is the last one (as before, on either reading)
     /\ ~HasLate(h) => (n > 0 /\ h[n].t >= 1 => p = h[n].t) /\ \A k \in Idx(h) : h[k].t <= p
\* when the risks are zero (c: the curve of the reading)
RiskZeroIffB(i, rd, b) ==
  LET h == closed[i]  c == Curve(HistR(h, rd))  rets == {Ret(h[k]) : k \in Idx(h)}
  IN /\ IsZero(b.var)     <=> Cardinality(rets) <= 1
     /\ IsZero(b.lossvar) <=> Cardinality({r \in rets : IsNeg(r)}) <= 1
     /\ Geq(b.var, Zero) /\ Geq(b.lossvar, Zero)
     /\ ~b.undef => /\ Geq(b.maxdd, Zero)
                    /\ IsZero(b.maxdd) <=> \A k \in Idx(c) : \A j \in 1..k : c[j].v <= c[k].v
     /\ (Len(c) > 0 /\ c[1].v > 0) => ~b.undef                         \* positive peaks: always defined
     /\ ~b.undef => b.maxdd = MaxDepthRef(c)                            \* MaxDepthIsRef
\* scaling a sheet from one interval to another gives the sheet of the other interval
ScaleLawS(bs, a, rf, iv) == \A iw \in Ivs \ {iv} :
  LET b == SheetOfBase(bs, rf, iw)
      same(f, g) == IF f.k = "num" THEN ScaleFig(f, IvLen[iv], IvLen[iw]) = g ELSE g.k = f.k /\ g.sign = f.sign
  IN /\ ScaleRor(a.pnl_return, IvLen[iv], IvLen[iw]) = b.pnl_return
     /\ same(a.sharpe_ratio, b.sharpe_ratio) /\ same(a.sortino_ratio, b.sortino_ratio)
     /\ same(a.calmar_ratio, b.calmar_ratio)
\* the order in which the positions were closed or delivered does not matter for the rate of return, Sharpe and
\* Sortino: number, mean and variances - which, with the period, decide the three figures for every rf and
\* interval (SheetOfBase) - are those of the multiset of returns; Calmar depends on the path.
\* (two neighbours exchanged: every history over the same positions / exit times is a state of the model, so
\*  the formula holding in all of them covers every permutation)
\* SwapPC: the positions change places, the exit times stay where they are: both period readings are kept
SwapPC(h) == {[k \in Idx(h) |-> LET q == IF k = j THEN j + 1 ELSE IF k = j + 1 THEN j ELSE k
                                IN Pos(h[q].pnl, h[q].cost, h[k].t)] : j \in 1..(Len(h) - 1)}
\* SwapRec: two positions are DELIVERED in the other order (each with its own exit time): the latest exit is
\* kept (the exit delivered last is not), and so is the chronological curve when their times differ
SwapRec(h, j) == [k \in Idx(h) |-> h[IF k = j THEN j + 1 ELSE IF k = j + 1 THEN j ELSE k]]
OrderFreeRatiosB(i, B) ==
  LET h == closed[i]
      same(g) == Len(g) = B.n /\ MeanRet(g) = B.mean /\ VarRet(g) = B.var /\ LossVarRet(g) = B.lossvar
  IN /\ \A g \in SwapPC(h) : same(g) /\ PeriodOf(LastT(g)) = B.pL /\ PeriodOf(MaxT(g)) = B.pM
     /\ \A j \in 1..(Len(h) - 1) :
          LET g == SwapRec(h, j)
          IN /\ same(g) /\ PeriodOf(MaxT(g)) = B.pM /\ ReturnsOf(g) = ReturnsOf(h)
             /\ h[j].t # h[j + 1].t => Chrono(g) = Chrono(h)
\* a history without a late exit has ONE sheet: the four readings coincide (nothing of open points 4 and 5
\* touches it); the chronological order is a rearrangement of the history, the history itself when nothing is late
MonotoneDeterminedB(i, B) ==
  LET h == closed[i]  c == Chrono(h)
  IN /\ ~B.late => \A rd \in Readings : ViewOf(B, rd) = ViewOf(B, CodeReading)
     /\ ~B.late => c = h /\ LastT(h) = MaxT(h)
     /\ B.late <=> \E k \in Idx(h), j \in Idx(h) : j < k /\ h[j].t > h[k].t
     /\ Len(c) = Len(h) /\ ~HasLate(c) /\ MaxT(c) = MaxT(h) /\ LastT(c) = MaxT(h)
     /\ \A x \in {h[k] : k \in Idx(h)} : Cardinality({k \in Idx(h) : h[k] = x}) = Cardinality({k \in Idx(c) : c[k] = x})
     /\ B.pM >= B.pL /\ (LastT(h) = MaxT(h) => B.pL = B.pM)
\* (one evaluation of BaseAll per instrument and state serves all the laws)
\* the laws as separate formulas, on every reading that can differ ...
PerSheet(L(_, _, _, _, _, _)) ==
  \A i \in Instr : LET B == BaseAll(closed[i])
                   IN \A rd \in ReadingsOf(B) : LET bs == ViewOf(B, rd)
                                                IN \A rf \in RFs, iv \in Ivs : L(i, rd, bs, SheetOfBase(bs, rf, iv), rf, iv)
AccRatios       == PerSheet(LAMBDA i, rd, bs, s, rf, iv : rd = CodeReading => AccRatiosS(i, s, rf, iv))
Conventions     == PerSheet(LAMBDA i, rd, bs, s, rf, iv : ConventionsS(i, rd, bs, s, rf, iv))
ScaleLaw        == PerSheet(LAMBDA i, rd, bs, s, rf, iv : ScaleLawS(bs, s, rf, iv))
RiskZeroIff     == \A i \in Instr : LET B == BaseAll(closed[i]) IN \A rd \in ReadingsOf(B) : RiskZeroIffB(i, rd, ViewOf(B, rd))
OrderFreeRatios == \A i \in Instr : OrderFreeRatiosB(i, BaseAll(closed[i]))
MonotoneDetermined == \A i \in Instr : MonotoneDeterminedB(i, BaseAll(closed[i]))
\* ... and as ONE invariant for the model checker (TLC does not remember the value of an operator
\* application: one evaluation of BaseAll per instrument and of the sheet per (reading, rf, iv) serves all)
RatioLaws == \A i \in Instr :
  LET B == BaseAll(closed[i])
  IN /\ OrderFreeRatiosB(i, B) /\ MonotoneDeterminedB(i, B)
     /\ \A rd \in ReadingsOf(B) :
          LET bs == ViewOf(B, rd)
          IN /\ RiskZeroIffB(i, rd, bs)
             /\ \A rf \in RFs, iv \in Ivs :
                  LET s == SheetOfBase(bs, rf, iv)
                  IN /\ rd = CodeReading => AccRatiosS(i, s, rf, iv)
                     /\ ConventionsS(i, rd, bs, s, rf, iv) /\ ScaleLawS(bs, s, rf, iv)
\* an event for key k leaves every ratio figure of every other key unchanged, on every reading
KeyedRatios == [][\A i \in Instr : i # last'.k =>
                    LET A == BaseAll(closed[i])  B == BaseAll(closed'[i])
                    IN /\ A = B
                       /\ \A rd \in ReadingsOf(A), rf \in RFs, iv \in Ivs :
                             SheetOfBase(ViewOf(B, rd), rf, iv) = SheetOfBase(ViewOf(A, rd), rf, iv)]_vars
\* a reset starts a new session: the sheet of the empty history, whatever was closed before - late exits included
ResetIsFresh == [][last'.a = "Reset" =>
                     /\ closed'[last'.k] = <<>> /\ acc'[last'.k] = Acc0
                     /\ \A rf \in RFs, iv \in Ivs : /\ RatiosOfAcc(acc'[last'.k], rf, iv) = RatioSheet(<<>>, rf, iv)
                                                    /\ RatioSheets(closed'[last'.k], rf, iv) = {RatioSheet(<<>>, rf, iv)}
                     /\ \A i \in Instr : i # last'.k => closed'[i] = closed[i] /\ acc'[i] = acc[i]]_vars

-----------------------------------------------------------------------------
(* C17 formulas                                                             *)
TypeC17 == \A k \in Idx(vals) : vals[k] \in Vals

VarNonNeg   == Geq(VarOf(vals), Zero)
MeanInRange == Len(vals) > 0 => Leq(R(Lo(vals)), MeanOf(vals)) /\ Leq(MeanOf(vals), R(Hi(vals)))
OrderFreeC17 == \A g \in Perm(vals) : DataSet(g) = DataSet(vals)
\* textbook identities of the batch definitions
VarAlt == Len(vals) > 0 =>
  LET n == Len(vals) S == ISum(vals)
      Q == ISumOver([k \in Idx(vals) |-> vals[k] * vals[k]], Idx(vals))
  IN VarOf(vals) = Frac(n * Q - S * S, n * n)
VarZeroIffConstant == Len(vals) > 0 => (IsZero(VarOf(vals)) <=> Cardinality(Elems(vals)) = 1)
ShiftScale ==
  LET sh == [k \in Idx(vals) |-> vals[k] + 7]
      sc == [k \in Idx(vals) |-> -2 * vals[k]]
  IN /\ VarOf(sh) = VarOf(vals)
     /\ Len(vals) > 0 => MeanOf(sh) = Add(MeanOf(vals), R(7))
     /\ VarOf(sc) = Mul(R(4), VarOf(vals))
     /\ MeanOf(sc) = Mul(R(-2), MeanOf(vals))
\* the losing returns are a sub-dataset: never more, never larger than the whole
LossesAreSubset == LET n == NegOf(vals)
                   IN /\ Len(n) <= Len(vals) /\ (Len(n) = Len(vals) <=> \A k \in Idx(vals) : vals[k] < 0)
                      /\ Len(n) > 0 => Hi(n) < 0 /\ Lo(n) = Lo(vals) /\ Lt(MeanOf(n), Zero) /\ Leq(MeanOf(n), MeanOf(vals))
\* the one-pass recurrences equal the batch definitions in exact arithmetic
WelfordExact == /\ wf.n = Len(vals) /\ wf.sum = ISum(vals)
                /\ wf.mean = MeanOf(vals)
                /\ WfVar(wf) = VarOf(vals)
=============================================================================
