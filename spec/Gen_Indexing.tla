---------------------------- MODULE Gen_Indexing ----------------------------
(* Scenario generation for the conformance harness (Pattern B): every         *)
(* insertion sequence of at most MaxLen definitions of the universe, with      *)
(* the tables Build produces for it, every exchange's map, the complete        *)
(* index -> name / name -> index tables (own and foreign, and one index past   *)
(* the end), the engine's derived tables and the execution-link table for      *)
(* every set of linkable exchanges - one JSON line per collection.            *)
(*   GSpec  exhaustive (BFS): all sequences, duplicates included              *)
(*   GSpecR simulation: long random sequences (the definition is drawn with    *)
(*          RandomElement, the length is geometric, capped at MaxLen)         *)
(* The C11 / C04 table invariants are checked on every generated collection.  *)
EXTENDS Indexing, Json

MaxOf(S) == IF S = {} THEN 0 ELSE CHOOSE x \in S : \A y \in S : y <= x

GSpec  == Init /\ [][NextBuild]_vars

\* one successor per state: keep inserting with probability 5/6 (up to MaxLen), else build.
\* The draws are bound through singleton sets (a LET would re-draw at every reference) and
\* made state-dependent (TLC evaluates a constant-level expression only once).
Fresh(S) == {RandomElement({x \in S : Len(defs) >= 0})}
GStepR == \E r \in Fresh(1..6) :
              IF Len(defs) < MaxLen /\ r # 1
              THEN \E d \in Fresh(Universe) : AddInstrument(d)
              ELSE Build
GSpecR == Init /\ [][GStepR]_vars

\* a mock execution link can only be put on an exchange whose instruments are all spot
\* (MockExchange supports nothing else) - a restriction of the harness, not of the property
Linkable(t) == {e \in Range(t.ex) : \A p \in DOMAIN t.ins : t.ins[p].ex = e => t.ins[p].kind = "spot"}

\* an open point of the spec becomes {"anyOf": [..]} for the harness' comparator
J(S) == IF Cardinality(S) = 1 THEN CHOOSE x \in S : TRUE ELSE [anyOf |-> S]

MapJ(t, e) ==
    LET m == MapFor(t, e) IN
    [e   |-> e, xk |-> m.xk,
     an  |-> [j \in DOMAIN m.as  |-> m.as[j][2]],                 \* exchange_assets()
     inn |-> {m.ins[j][2] : j \in DOMAIN m.ins},                  \* exchange_instruments() (distinct names)
     ia  |-> [p \in 1..(Len(t.as) + 1)  |-> AssetIndexToName(t, e, p)],
     ii  |-> [p \in 1..(Len(t.ins) + 1) |-> J(IndexToNameSet(m.ins, p))],
     na  |-> [n \in 1..MaxOf(AssetNames) |-> AssetNameToIndex(t, e, n)],
     ni  |-> [n \in 1..MaxOf(InsNames)   |-> J(NameToIndexSet(m.ins, n))]]

Scenario ==
    [defs |-> defs,
     uni  |-> InternalNamesDistinct(DefSet),      \* is the alignment of InstrumentStates claimed?
     ex   |-> tables.ex, as |-> tables.as, ins |-> tables.ins,
     maps |-> [k \in DOMAIN tables.ex |-> MapJ(tables, tables.ex[k])],
     sti  |-> [p \in DOMAIN InstrumentStates(tables) |->
                 [ni |-> InstrumentStates(tables)[p][1], key |-> InstrumentStates(tables)[p][2].key,
                  id |-> InstrumentStates(tables)[p][2].id]],
     sta  |-> [p \in DOMAIN AssetStates(tables) |->
                 [ex |-> AssetStates(tables)[p][1][1], a |-> AssetStates(tables)[p][1][2],
                  nx |-> AssetStates(tables)[p][2].nx]],
     conn |-> [p \in DOMAIN Connectivity(tables) |-> Connectivity(tables)[p][1]],
     tx   |-> {[l |-> L, t |-> [p \in DOMAIN ExecTx(tables, L) |->
                                   [ex |-> ExecTx(tables, L)[p][1], k |-> ExecTx(tables, L)[p][2]]]]
               : L \in SUBSET Linkable(tables)}]

Emit == AtBuild => PrintT(<<"SCN", ToJson(Scenario)>>)
=============================================================================
