------------------------------ MODULE Backtest ------------------------------
(***************************************************************************)
(* Concurrent backtests (C20): every backtest feeds its whole market       *)
(* dataset to its engine exactly once, in order, before shutting it down;  *)
(* its summary is computed from that engine alone; concurrent backtests do *)
(* not affect one another.                                                 *)
(*                                                                         *)
(* Code transcribed                                                        *)
(*   barter/src/backtest/mod.rs        run_backtests (try_join_all over    *)
(*                                     backtest()), backtest(): fresh      *)
(*                                     clock / execution / engine-state    *)
(*                                     clone per run -> one record run[b]  *)
(*   barter/src/backtest/market_data.rs MarketDataInMemory::stream: lazily *)
(*                                     clones events in index order        *)
(*   barter/src/system/builder.rs      SystemBuild::init_internal: one     *)
(*                                     unbounded FIFO `feed`; tasks        *)
(*                                     market_to_engine (Forward),         *)
(*                                     account_to_engine (ExchangeRespond),*)
(*                                     engine task (EngineStep)            *)
(*   barter-data/.../reconnect/stream.rs forward_to: sends items in stream *)
(*                                     order, stops when the stream ends   *)
(*   barter/src/engine/run.rs          async_run: pop one event, process,  *)
(*                                     stop on a terminal audit            *)
(*   barter/src/engine/mod.rs          Engine::process: one arm per event  *)
(*                                     kind (StepMarket, StepDisc,         *)
(*                                     StepAccount, StepShutdown)          *)
(*   barter/src/system/mod.rs          shutdown_after_backtest: awaits the *)
(*                                     market forwarder, THEN sends        *)
(*                                     Shutdown on the same feed           *)
(*                                     (SendShutdown), awaits the engine   *)
(*                                     (EngineShutdown)                    *)
(*   barter/src/execution/builder.rs, barter-execution/.../mock           *)
(*                                     mock exchange + execution manager:  *)
(*                                     initial account snapshot; per order *)
(*                                     a response, a balance snapshot and  *)
(*                                     a trade, delivered asynchronously   *)
(*                                                                         *)
(* State: one record per run b, whose fields are the variables the         *)
(* property talks about:                                                   *)
(*   p        the run's parameters: n (dataset length - shared), recs      *)
(*            (positions of `Reconnecting` items - shared), acts (events   *)
(*            its strategy opens an order on), fatalAt (events at which    *)
(*            sending hits an unrecoverable execution-link error),         *)
(*            srcFailAt (empty, or {k}: the market data source fails - its  *)
(*            stream panics - after having yielded k of the n items)        *)
(*   cursor   number of dataset items the market forwarder has pushed      *)
(*   feed     the engine's FIFO feed                                       *)
(*   consumed dataset items the engine has processed, in order             *)
(*   sent     events on which an order was sent (= in-flight records)      *)
(*   exch     account events the execution side still has to deliver       *)
(*   applied  account events the engine has applied, in order              *)
(*   clock    the run's HistoricalClock, in dataset time: the index of the  *)
(*            latest market item this run's engine has processed           *)
(*   stamps   the clock reading each sent order was stamped with (request   *)
(*            time -> fill, balance and position-entry timestamps)          *)
(*   sdSent, phase ("run" -> "stopped" -> "done", or "run" -> "failed"),   *)
(*   fatal, summary                                                        *)
(*                                                                         *)
(* Every action is  run' = [run EXCEPT ![b] = F(run[b])]  with F a         *)
(* function of the run's own record (enabling predicate CanX, effect DoX) -   *)
(* the trace module composes the same functions.  Isolation is therefore   *)
(* by construction in the specification (and checked: the K-run state      *)
(* space is the product of the single-run state spaces); its substance is  *)
(* the binding to the implementation.                                      *)
(*                                                                         *)
(* Left nondeterministic (the property leaves it open):                    *)
(*   - every interleaving of forwarder, exchange, engine and shutdown      *)
(*     tasks, within a run and across runs (schedules) - in particular the *)
(*     forwarder may take ARBITRARILY LONG between two items and before it *)
(*     ends (a data source that loads lazily, sleeps, reconnects): there   *)
(*     is no bound within which Forward must happen, and SendShutdown      *)
(*     stays disabled until the forwarder has finished, however long that  *)
(*     takes - no timeout may stand in for ForwarderDone;                  *)
(*   - the delivery order of account events (nothing about an order        *)
(*     precedes its sending; each event is delivered at most once) - the   *)
(*     mock exchange answers every order from its own spawned task, so     *)
(*     answers to different orders may overtake one another, and a balance *)
(*     snapshot does not say which order caused it;                        *)
(*   - whether account events still pending when Shutdown is processed are *)
(*     ever applied (shutdown_after_backtest waits only for the market     *)
(*     forwarder; DESIGN C20).                                             *)
(* The fatal path (fatalAt: the engine stops on an unrecoverable error, e.g. *)
(* an order for an instrument whose exchange has no execution link) is part *)
(* of the model because the property exempts it ("unless the engine stops   *)
(* on a fatal error"); it is model-checked but not driven in the            *)
(* implementation (there shutdown_after_backtest may find the feed receiver *)
(* dropped and panic - outside C20).                                        *)
(* A data source that fails part way (SourceFails: the forwarder task ends  *)
(* with a JoinError) ends the run WITHOUT a summary: shutdown_after_backtest*)
(* propagates the error (`market_to_engine.await?`), backtest() returns     *)
(* Err; Shutdown is never sent.  A summary is therefore made only if every  *)
(* item was consumed (or the engine stopped on a fatal error).  What        *)
(* run_backtests does with the other runs of the batch when one fails       *)
(* (try_join_all: the batch is Err, the other futures are dropped) is not   *)
(* part of the property and not modelled: a run that returns no summary is  *)
(* simply not judged beyond the prefix it processed.                        *)
(* The result of a batch (run_backtests) is a SEQUENCE with one summary per  *)
(* run: position k holds the summary of run k, made from run k's own engine, *)
(* and num_backtests is the number of runs (Batch / BatchOK below).  The ids *)
(* callers give their backtests are labels, not keys: runs with equal ids    *)
(* (the repository example clones one template id) are still distinct runs   *)
(* with distinct results - the model identifies a run by its position only.  *)
(* Exchange times need not increase along the dataset (late / re-published  *)
(* ticks): the engine processes every item whatever its time; the model's   *)
(* clock index is only read when an order is stamped (the binding opens no  *)
(* order on an item older than its predecessor).                            *)
(* Dataset items are ALL items of the market stream, Reconnecting items     *)
(* ("r") included, wherever they stand - also before the first market item.*)
(* The clock of a run is a function of that run's own consumed prefix       *)
(* (backtest() builds a fresh HistoricalClock per run): Isolation covers    *)
(* it - no run's timestamps may follow another run's progress. The wall-    *)
(* clock delta the real clock adds on top is abstracted away (the binding   *)
(* allows a slack far below the spacing of the datasets' exchange times).   *)
(* Fixed by the property (NOT left open): market items reach the engine in *)
(* dataset order, each once; Shutdown is sent only after the forwarder     *)
(* finished; a run reads and writes its own record only.                   *)
(***************************************************************************)
EXTENDS Naturals, Sequences, FiniteSets, TLC

CONSTANTS Runs,       \* identities of the concurrent backtests
          Params,     \* Params[b] = [n, recs, acts, fatalAt, srcFailAt]
          OrderKinds  \* account events an accepted order produces: a subset of
                      \* {"order", "balance", "trade"} (the mock exchange produces all three -
                      \* smaller sets keep the exhaustive models small)

VARIABLES run       \* run[b] : the record described above

vars == <<run>>

(***************************************************************************)
(* Feed items (records with uniform fields so that they can be compared).  *)
(***************************************************************************)
Item(t, i, kind) == [t |-> t, i |-> i, kind |-> kind]
DataItem(p, i)   == Item(IF i \in p.recs THEN "r" ELSE "m", i, "-")
Dataset(p)       == [i \in 1..p.n |-> DataItem(p, i)]
ShutdownItem     == Item("sd", 0, "-")
Acct(k, kind)    == Item("a", k, kind)
SnapshotItem     == Acct(0, "snapshot")

NoSummary == [made |-> FALSE, consumed |-> 0, trades |-> <<>>, balances |-> 0]

\* what the trading summary is computed from: this run's engine state only
Trades(r)   == SelectSeq(r.applied, LAMBDA x : x.kind = "trade")
Balances(r) == Len(SelectSeq(r.applied, LAMBDA x : x.kind = "balance"))
Summ(r)     == [made |-> TRUE, consumed |-> Len(r.consumed),
                trades |-> [j \in 1..Len(Trades(r)) |-> Trades(r)[j].i], balances |-> Balances(r)]

InitRun(p) == [p |-> p, cursor |-> 0, feed |-> <<>>, consumed |-> <<>>, sent |-> <<>>,
               clock |-> 0, stamps |-> <<>>,
               exch |-> {SnapshotItem}, applied |-> <<>>, sdSent |-> FALSE,
               phase |-> "run", fatal |-> FALSE, summary |-> NoSummary]

IsPrefix(s, t) == Len(s) <= Len(t) /\ s = SubSeq(t, 1, Len(s))

(***************************************************************************)
(* Single-run transition functions.                                        *)
(***************************************************************************)
\* market_to_engine: stream.forward_to(feed_tx) - next dataset item, in index order
CanForward(r) == r.phase = "run" /\ r.cursor < r.p.n /\ r.cursor \notin r.p.srcFailAt
DoForward(r)  == [r EXCEPT !.cursor = @ + 1, !.feed = Append(@, DataItem(r.p, r.cursor + 1))]

\* execution manager / mock exchange -> account_to_engine -> feed
CanRespond(r, x) == r.phase = "run" /\ x \in r.exch
DoRespond(r, x)  == [r EXCEPT !.exch = @ \ {x}, !.feed = Append(@, x)]

\* the stream of the data source panics after k items: the forwarder task ends with a JoinError,
\* `market_to_engine.await?` returns it, backtest() returns Err - no Shutdown, no summary
CanSourceFail(r) == r.phase = "run" /\ r.cursor \in r.p.srcFailAt
DoSourceFail(r)  == [r EXCEPT !.phase = "failed"]

\* shutdown_after_backtest: `market_to_engine.await?` THEN `feed_tx.send(Shutdown)`
ForwarderDone(r)   == r.cursor = r.p.n
CanSendShutdown(r) == r.phase = "run" /\ ForwarderDone(r) /\ ~r.sdSent
DoSendShutdown(r)  == [r EXCEPT !.sdSent = TRUE, !.feed = Append(@, ShutdownItem)]

\* Engine::process, one arm per event kind (the engine pops the head of the feed)
CanStep(r)   == r.phase = "run" /\ r.feed # <<>>
Popped(r)    == [r EXCEPT !.feed = Tail(@)]
\* (HistoricalClock::process: a market item with a newer exchange time moves the clock; a
\*  Reconnecting item carries no time)
Consume(r)   == [Popped(r) EXCEPT !.consumed = Append(@, Head(r.feed)),
                                  !.clock = IF Head(r.feed).t = "m" /\ Head(r.feed).i > @ THEN Head(r.feed).i ELSE @]
\* market item: the data states process it, then the strategy generates its algo orders
DoStepMarket(r) ==
    LET h == Head(r.feed) IN
    IF h.i \notin r.p.acts THEN Consume(r)
    ELSE IF h.i \in r.p.fatalAt
         THEN [Consume(r) EXCEPT !.phase = "stopped", !.fatal = TRUE]     \* unrecoverable: engine stops
         ELSE [Consume(r) EXCEPT !.sent = Append(@, h.i),
                                 !.stamps = Append(@, Consume(r).clock),    \* request time = own clock
                                 !.exch = @ \cup {Acct(h.i, kd) : kd \in OrderKinds}]
DoStepDisc(r)     == Consume(r)
DoStepAccount(r)  == [Popped(r) EXCEPT !.applied = Append(@, Head(r.feed))]
DoStepShutdown(r) == [Popped(r) EXCEPT !.phase = "stopped"]
DoStep(r) == CASE Head(r.feed).t = "m"  -> DoStepMarket(r)
               [] Head(r.feed).t = "r"  -> DoStepDisc(r)
               [] Head(r.feed).t = "a"  -> DoStepAccount(r)
               [] Head(r.feed).t = "sd" -> DoStepShutdown(r)

\* the engine task returns; backtest() generates the summary from that engine
CanEngineShutdown(r) == r.phase = "stopped"
DoEngineShutdown(r)  == [r EXCEPT !.phase = "done", !.summary = Summ(r)]

\* the single-run next-state relation
Step1(r, r2) ==
    \/ CanForward(r) /\ r2 = DoForward(r)
    \/ \E x \in r.exch : CanRespond(r, x) /\ r2 = DoRespond(r, x)
    \/ CanSendShutdown(r) /\ r2 = DoSendShutdown(r)
    \/ CanSourceFail(r) /\ r2 = DoSourceFail(r)
    \/ CanStep(r) /\ r2 = DoStep(r)
    \/ CanEngineShutdown(r) /\ r2 = DoEngineShutdown(r)

(***************************************************************************)
(* Actions of the K-run system.                                            *)
(***************************************************************************)
Set(b, r2) == run' = [run EXCEPT ![b] = r2]

Forward(b)         == CanForward(run[b]) /\ Set(b, DoForward(run[b]))
ExchangeRespond(b) == \E x \in run[b].exch : CanRespond(run[b], x) /\ Set(b, DoRespond(run[b], x))
SendShutdown(b)    == CanSendShutdown(run[b]) /\ Set(b, DoSendShutdown(run[b]))
SourceFails(b)     == CanSourceFail(run[b]) /\ Set(b, DoSourceFail(run[b]))
StepMarket(b)      == CanStep(run[b]) /\ Head(run[b].feed).t = "m"  /\ Set(b, DoStepMarket(run[b]))
StepDisc(b)        == CanStep(run[b]) /\ Head(run[b].feed).t = "r"  /\ Set(b, DoStepDisc(run[b]))
StepAccount(b)     == CanStep(run[b]) /\ Head(run[b].feed).t = "a"  /\ Set(b, DoStepAccount(run[b]))
StepShutdown(b)    == CanStep(run[b]) /\ Head(run[b].feed).t = "sd" /\ Set(b, DoStepShutdown(run[b]))
EngineStep(b)      == StepMarket(b) \/ StepDisc(b) \/ StepAccount(b) \/ StepShutdown(b)
EngineShutdown(b)  == CanEngineShutdown(run[b]) /\ Set(b, DoEngineShutdown(run[b]))

RunNext(b) == Forward(b) \/ ExchangeRespond(b) \/ SendShutdown(b) \/ SourceFails(b) \/ EngineStep(b) \/ EngineShutdown(b)

Init == run = [b \in Runs |-> InitRun(Params[b])]
Next == \E b \in Runs : RunNext(b)
Spec == Init /\ [][Next]_vars
FairSpec == Spec /\ \A b \in Runs : WF_vars(RunNext(b))

(***************************************************************************)
(* The property.                                                           *)
(***************************************************************************)
ParamOK(p) == /\ p.n \in Nat /\ p.recs \subseteq 1..p.n
              /\ p.acts \subseteq (1..p.n) \ p.recs /\ p.fatalAt \subseteq p.acts
              /\ p.srcFailAt \subseteq 0..(p.n - 1) /\ Cardinality(p.srcFailAt) <= 1

MarketItems(s) == SelectSeq(s, LAMBDA x : x.t \in {"m", "r"})

\* invariants of one run record (also evaluated by the trace module on implementation states)
TypeOK1(r) ==
    /\ ParamOK(r.p)
    /\ r.cursor \in 0..r.p.n
    /\ r.clock \in 0..r.p.n
    /\ r.phase \in {"run", "stopped", "done", "failed"}
    /\ r.fatal \in BOOLEAN /\ r.sdSent \in BOOLEAN
    /\ \A j \in 1..Len(r.feed) : r.feed[j].t \in {"m", "r", "a", "sd"}
    /\ \A x \in r.exch : x.t = "a"

\* PrefixAlways: what the engine has processed is always a prefix of the dataset -
\* in order, nothing skipped, nothing twice
PrefixAlways1(r) == /\ Len(r.consumed) <= r.p.n
                    /\ \A j \in 1..Len(r.consumed) : r.consumed[j] = DataItem(r.p, j)   \* = IsPrefix(consumed, Dataset)

\* CompleteInOrder: an engine that stopped without a fatal error has processed the whole dataset;
\* a summary is made only if every item was consumed (or the engine stopped on a fatal error) -
\* in particular never for a run whose data source failed
CompleteInOrder1(r) == /\ (r.phase \in {"stopped", "done"} /\ ~r.fatal) => r.consumed = Dataset(r.p)
                       /\ (r.summary.made /\ ~r.fatal) => r.consumed = Dataset(r.p)
                       /\ r.phase = "failed" => (~r.summary.made /\ ~r.sdSent /\ r.cursor \in r.p.srcFailAt)

\* behind what was consumed the feed holds exactly the items forwarded so far, in order
\* (with PrefixAlways: consumed \o MarketItems(feed) = SubSeq(Dataset, 1, cursor));
\* Shutdown is behind every market item
FeedInOrder1(r) ==
    /\ r.phase = "run" =>
          \E mi \in {MarketItems(r.feed)} :
             /\ Len(r.consumed) + Len(mi) = r.cursor
             /\ \A j \in 1..Len(mi) : mi[j] = DataItem(r.p, Len(r.consumed) + j)
    /\ \A j \in 1..Len(r.feed) : r.feed[j].t = "sd" => /\ ForwarderDone(r)
                                                        /\ \A m \in j..Len(r.feed) : r.feed[m].t \notin {"m", "r"}

\* orders are sent exactly on the consumed events the strategy acts on (the fatal one excepted)
IdsOf(s)   == [j \in 1..Len(s) |-> s[j].i]
SentOK1(r) == \E acted \in {SelectSeq(r.consumed, LAMBDA x : x.i \in r.p.acts \ r.p.fatalAt)} :
                 r.sent = IdsOf(acted)

\* ClockOwn: the clock is a function of the run's own consumed prefix (the latest market item it
\* has processed), and every order is stamped with the time of the event it was opened on
ClockOwn1(r) ==
    /\ \E ms \in {SelectSeq(r.consumed, LAMBDA x : x.t = "m")} :
          r.clock = IF ms = <<>> THEN 0 ELSE ms[Len(ms)].i
    /\ Len(r.stamps) = Len(r.sent)
    /\ \A j \in 1..Len(r.sent) : r.stamps[j] = r.sent[j]

\* account events concern this run's own orders only, each at most once
AppliedOK1(r) ==
    \A j \in 1..Len(r.applied) :
       /\ r.applied[j].t = "a"
       /\ r.applied[j].i # 0 => \E m \in 1..Len(r.sent) : r.sent[m] = r.applied[j].i
       /\ \A m \in 1..Len(r.applied) : r.applied[m] = r.applied[j] => m = j

\* the summary is made once, when the engine has stopped, from this run's engine alone
SummaryOK1(r) == /\ r.summary.made <=> r.phase = "done"
                 /\ r.phase = "done" => r.summary = Summ(r)

\* the batch result: one entry per run (its length is num_backtests), entry b is run b's summary
Batch    == [b \in Runs |-> run[b].summary]
BatchOK  == /\ DOMAIN Batch = Runs
            /\ \A b \in Runs : run[b].phase = "done" => (Batch[b].made /\ Batch[b] = Summ(run[b]))
            /\ \A b \in Runs : Batch[b].made => run[b].phase = "done"

Inv1(r) == TypeOK1(r) /\ PrefixAlways1(r) /\ CompleteInOrder1(r) /\ FeedInOrder1(r)
           /\ SentOK1(r) /\ ClockOwn1(r) /\ AppliedOK1(r) /\ SummaryOK1(r)

TypeOK          == \A b \in Runs : TypeOK1(run[b])
PrefixAlways    == \A b \in Runs : PrefixAlways1(run[b])
CompleteInOrder == \A b \in Runs : CompleteInOrder1(run[b])
FeedInOrder     == \A b \in Runs : FeedInOrder1(run[b])
SentOK          == \A b \in Runs : SentOK1(run[b])
ClockOwn        == \A b \in Runs : ClockOwn1(run[b])
AppliedOK       == \A b \in Runs : AppliedOK1(run[b])
SummaryOK       == \A b \in Runs : SummaryOK1(run[b])

\* Isolation: a step changes one run, by a step of the single-run relation over that run's own
\* record; the parameters never change.  (That the reachable states of K runs are exactly the
\* product of the single-run state spaces is checked on the model-checking results.)
Isolation == [][\E b \in Runs : /\ Step1(run[b], run'[b])
                                /\ run'[b].p = run[b].p
                                /\ \A c \in Runs \ {b} : run'[c] = run[c]]_vars

\* consumed / sent / applied only grow; phases only advance; a finished run never changes
Mono1(r, r2) == /\ IsPrefix(r.consumed, r2.consumed)
                /\ IsPrefix(r.sent, r2.sent)
                /\ IsPrefix(r.stamps, r2.stamps) /\ r.clock <= r2.clock
                /\ IsPrefix(r.applied, r2.applied)
                /\ r.phase \in {"done", "failed"} => r2 = r
                /\ r.phase = "stopped" => r2.phase # "run"
Monotone == [][\A b \in Runs : Mono1(run[b], run'[b])]_vars

\* under weak fairness of every run's tasks, every backtest finishes: with a summary, or - if
\* and only if its data source fails - with an error
Finishes == \A b \in Runs : <>(run[b].phase = IF Params[b].srcFailAt = {} THEN "done" ELSE "failed")
=============================================================================
