"""C05 - local L2 order book equals a price->amount map after any event sequence (spec/OrderBook.tla)."""
import json
import vlib

MODULE = "OrderBook"
META = {
    "technique": "TLA+ reference (price->amount maps, derived views as exact fractions) model-checked with TLC; "
                 "TLC-generated behaviours carrying every allowed resulting book replayed into OrderBook::update and "
                 "OrderBookL2Manager::run and compared field by field; implementation traces (replays and a seeded "
                 "random driver over 16 prices) validated step by step by TLC against the spec",
}
ASSUMPTIONS = [
    "snapshots carry distinct prices and positive amounts (OrderBook::new neither de-duplicates nor filters)",
    "several entries for one price inside one level list: the last entry wins (the list is folded left to right); the code's "
    "sort_unstable_by preserves the order of equal prices only up to 20 elements (insertion sort), so for longer lists any "
    "application order among equal prices is allowed (OrderBook!StableUpTo; the drivers use lists of at most 7 entries)",
    "time_engine is not part of the property and is not compared",
    "manager mode: the stream interleaves L2 events addressed to a second instrument and to an unknown one; scenarios alternate "
    "between OrderBookMapSingle (only this book configured) and OrderBookMapMulti (both configured: the other book must follow "
    "exactly its own events); an event that is not this book's own may only be OrderBook!ManagerSkip",
    "manager mode: the manager runs on its own thread; at random events a consumer of the shared map holds a read lock on the "
    "book for ~4 ms while the event arrives (waiting for the manager is bounded by 60 s wall clock = tool error, never a verdict)",
    "prices / amounts are small integers times a per-scenario power of ten (1e-8 .. 1e3); volume weighted mid "
    "compared exactly where the fraction is a finite decimal, else to 1e-18 relative",
]
INT_FIELDS = ("seq", "mid2", "vwm")


def levels_ok(v):
    return isinstance(v, list) and all(isinstance(l, dict) and isinstance(l.get("p"), int) and isinstance(l.get("a"), int) for l in v)


def anomaly(line):
    post = line.get("post")
    if isinstance(post, dict) and "anomaly" in post:
        return "manager: %s" % post["anomaly"]
    if not isinstance(post, dict) or "panic" in post:
        return "the call panicked: %s" % (post.get("panic") if isinstance(post, dict) else post)
    for k in INT_FIELDS:
        if not isinstance(post.get(k), int):
            return "non-integral value in spec units: %s = %r" % (k, post.get(k))
    for side in (post, post["d0"], post["d1"], post["d2"], post["dL"]):
        if not levels_ok(side["bids"]) or not levels_ok(side["asks"]) or not isinstance(side["seq"], int):
            return "non-integral level in spec units: %s" % json.dumps(side)[:200]
    return None


def strict(v, desc):
    ps = [l["p"] for l in v]
    return all((a > b) if desc else (a < b) for a, b in zip(ps, ps[1:])) and all(l["a"] != 0 for l in v)


def classify(line):
    """Stable description of how a rejected line deviates (python-side, only for the signature)."""
    p = line["post"]
    if not strict(p["bids"], True) or not strict(p["asks"], False):
        return "vector-not-a-map"
    for d, k in ((0, "d0"), (1, "d1"), (2, "d2"), (99, "dL")):
        if p[k]["bids"] != p["bids"][:d] or p[k]["asks"] != p["asks"][:d] or p[k]["seq"] != p["seq"]:
            return "depth-snapshot"
    if line["a"] != "Noop" and line.get("inst", "own") == "own" and p["seq"] != line["s"]:
        return "sequence"
    bb, ba = (p["bids"] or [None])[0], (p["asks"] or [None])[0]
    if bb and ba:
        mid2, num, den = bb["p"] + ba["p"], 1000 * (bb["p"] * ba["a"] + ba["p"] * bb["a"]), bb["a"] + ba["a"]
    elif bb or ba:
        mid2, num, den = 2 * (bb or ba)["p"], 1000 * (bb or ba)["p"], 1
    else:
        mid2, num, den = -1, -1, 1
    if p["mid2"] != mid2:
        return "mid-price"
    if abs(p["vwm"] * den - num) > den:
        return "volume-weighted-mid"
    return "levels"


def scenario_of(seg):
    """Replayable scenario of a trace segment: this book's own events (the manager mode adds events of other
    instruments again, seeded) and the map flavour the manager ran with."""
    r = seg[0]
    scn = {"init": {"bids": r["bl"], "asks": r["al"], "seq": r["s"]},
           "steps": [{"ev": {"k": l["a"], "b": l["bl"], "a": l["al"], "s": l["s"]}} for l in seg[1:]
                     if l["a"] != "Noop" and l.get("inst", "own") == "own"]}
    if r.get("map"):
        scn["map"] = r["map"]
    return scn


def validate(ctx, trace_path, mode, label):
    lines = ctx.read_trace(trace_path)
    clean = ctx.path("clean_" + label.replace("/", "_") + ".ndjson")
    found, keep = ctx.screen_anomalies(lines, clean, anomaly)
    for n, d, seg in found:
        ctx.violation("anomaly:" + d.split(":")[0], "%s [%s, line %d, event %s]" % (
            d, label, n, json.dumps({k: seg[-1].get(k) for k in ("a", "bl", "al", "s")})),
            {"mode": mode, "scenario": scenario_of(seg)})
    n, bad, truncated = ctx.tlc_trace("Trace_" + MODULE, "Trace_" + MODULE + ".cfg", clean)
    for b in bad:
        seg = ctx.segment(keep, b)
        line = keep[b - 1]
        pre = seg[-2]["post"] if len(seg) >= 2 else None
        ev = {k: line.get(k) for k in ("a", "inst", "bl", "al", "s")}
        desc = "book bids=%s asks=%s seq=%s, event %s -> observed %s is not the view of a book OrderBook allows [%s, line %d]" % (
            json.dumps(pre["bids"]) if pre else "?", json.dumps(pre["asks"]) if pre else "?", pre["seq"] if pre else "?",
            json.dumps(ev), json.dumps(line["post"]), label, b)
        whom = "" if line.get("inst", "own") in ("own", "none") else "@" + line["inst"] + "-instrument"
        ctx.violation("trace:%s%s:%s" % (line.get("a"), whom, classify(line)), desc, {"mode": mode, "scenario": scenario_of(seg)})
    ctx.cov["traces_validated_against_impl"] += sum(1 for l in keep if l.get("a") == "Reset")
    return n


def deep_books(ctx):
    """Books of more than a thousand levels per side (harness `c05 deep`), validated by Trace_OrderBook_deep: however
    deep the book, it is exactly the price -> amount map (nothing about the number of levels may matter)."""
    out = ctx.path("trace_deep.ndjson")
    ctx.harness("c05", "deep", "--seed", ctx.seed, "--trace", out)
    lines = ctx.read_trace(out)
    clean = ctx.path("clean_deep.ndjson")
    found, keep = ctx.screen_anomalies(lines, clean, anomaly)
    rp = {"mode": "deep", "seed": ctx.seed}
    for n, d, seg in found:
        ctx.violation("deep:anomaly:" + d.split(":")[0], "%s [deep book, line %d]" % (d, n), rp)
    n, bad, _ = ctx.tlc_trace("Trace_" + MODULE + "_deep", "Trace_" + MODULE + "_deep.cfg", clean)
    for b in bad:
        line = keep[b - 1]
        pre = keep[b - 2]["post"] if b >= 2 else None
        ctx.violation("deep:%s" % line.get("a"),
                      "a book of %s bid / %s ask levels, event %s -> observed %d bid / %d ask levels (seq %s): not the view of the price -> amount "
                      "map OrderBook yields [deep book, line %d]" % (
                          len(pre["bids"]) if pre else "?", len(pre["asks"]) if pre else "?",
                          json.dumps({k: line.get(k) for k in ("a", "bl", "al", "s")}),
                          len(line["post"].get("bids", [])), len(line["post"].get("asks", [])), line["post"].get("seq"), b), rp)
    ctx.cov["deep_books"] = {"lines": n, "levels_per_side": max((len(l["post"].get("bids", [])) for l in keep if isinstance(l.get("post"), dict)), default=0)}


def check_results(ctx, results_path, scns, mode, label):
    for r in ctx.read_results(results_path):
        if r.get("ok"):
            continue
        err = r.get("error", "")
        field = err.split(":")[0].split("[")[0]
        ev = r.get("event")
        kind = ev.get("k") if isinstance(ev, dict) else str(ev)
        ctx.violation("replay:%s:%s" % (kind, "panic" if err.startswith("panic") else field),
                      "book %s, event %s: %s [%s scenario %d step %s]" % (
                          json.dumps(r.get("pre")), json.dumps(ev), err, label, r["scn"], r.get("step")),
                      {"mode": mode, "scenario": scns[r["scn"]]})


def run_scenarios(ctx, scn_path, scns, mode, label):
    res, tr = ctx.path("results_%s_%s.ndjson" % (label, mode)), ctx.path("trace_%s_%s.ndjson" % (label, mode))
    # (a replay holds a reader on the book at every event of the manager mode, so that a lost event reproduces)
    extra = ["--reader-every", 1] if label == "replay" else []
    ctx.harness("c05", "run", "--scenarios", scn_path, "--results", res, "--trace", tr, "--mode", mode, "--seed", ctx.seed, *extra)
    check_results(ctx, res, scns, mode, label + "/" + mode)
    validate(ctx, tr, mode, label + "/" + mode)
    ctx.cov["scenarios_replayed"] += len(scns)


def check(ctx):
    ctx.assumptions += ASSUMPTIONS
    ctx.build("c05")
    # vacuity: every action taken (tiny universe, with -coverage); the real runs go without it
    # (-coverage slows TLC down several times on this spec)
    ctx.tlc_mc(MODULE, "MC_OrderBook_actions.cfg", timeout=300)
    if ctx.quick:
        ctx.tlc_mc(MODULE, "MC_OrderBook.cfg", timeout=600, coverage=False)
    else:
        ctx.tlc_mc(MODULE, "MC_OrderBook_2sided.cfg", timeout=600, coverage=False)
        ctx.tlc_mc(MODULE, "MC_OrderBook_thorough.cfg", timeout=1800, coverage=False)
    # (i) every (book, event) transition of the small universe; (ii) simulated behaviours, wider prices
    p_t, scn_t = ctx.tlc_gen("Gen_" + MODULE, "GenT_OrderBook.cfg" if ctx.quick else "GenT_OrderBook_thorough.cfg",
                             "transitions.ndjson", timeout=900)
    # (i') every ORDER of a level list: all lists of <= 3 entries over two prices (natural order, reversed, unsorted,
    #      repeated prices adjacent and not), snapshots of two levels in both orders - joined to the transition set
    p_p, scn_p = ctx.tlc_gen("Gen_" + MODULE, "GenP_OrderBook.cfg", "orders.ndjson", timeout=900)
    scn_t = scn_t + scn_p
    with open(p_t, "a") as f:
        for sc in scn_p:
            f.write(json.dumps(sc) + "\n")
    nb, depth = (240, 30) if ctx.quick else (2000, 45)
    p_b, scn_b = ctx.tlc_gen("Gen_" + MODULE, "GenB_OrderBook.cfg" if ctx.quick else "GenB_OrderBook_thorough.cfg",
                             "behaviours.ndjson", simulate=(nb, depth), timeout=1200)
    ctx.sample({"kind": "TLC transition scenario (init book, one event, every allowed resulting view)", "scenario": scn_t[len(scn_t) // 2]})
    b0 = dict(scn_b[0])
    b0["steps"] = b0["steps"][:3]
    ctx.sample({"kind": "TLC simulated behaviour (first 3 of %d events)" % len(scn_b[0]["steps"]), "scenario": b0})
    steps = 3000 if ctx.quick else 40000
    for mode in ("direct", "manager"):
        run_scenarios(ctx, p_t, scn_t, mode, "transitions")
        run_scenarios(ctx, p_b, scn_b, mode, "behaviours")
        out = ctx.path("trace_random_%s.ndjson" % mode)
        ctx.harness("c05", "random", "--seed", ctx.seed, "--steps", steps, "--trace", out, "--mode", mode)
        validate(ctx, out, mode, "random/" + mode)
    deep_books(ctx)
    return ctx.finish()


def replay(ctx, rp):
    ctx.build("c05")
    if rp.get("mode") == "deep":
        ctx.seed = rp.get("seed", ctx.seed)
        deep_books(ctx)
        return ctx.finish(write_evidence=False)
    scn = ctx.path("replay_scn.ndjson")
    with open(scn, "w") as f:
        f.write(json.dumps(rp["scenario"]) + "\n")
    run_scenarios(ctx, scn, [rp["scenario"]], rp["mode"], "replay")
    return ctx.finish(write_evidence=False)
