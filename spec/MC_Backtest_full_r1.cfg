SPECIFICATION Spec
CONSTANTS
  Runs = {1}
  Params <- Params_C
  OrderKinds = {"order", "balance", "trade"}
INVARIANTS TypeOK PrefixAlways CompleteInOrder FeedInOrder SentOK ClockOwn AppliedOK SummaryOK BatchOK
PROPERTIES Isolation Monotone 
CHECK_DEADLOCK FALSE
