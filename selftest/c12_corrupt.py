#!/usr/bin/env python3
"""Binding self-test for C12: corrupted traces must be rejected by Trace_Reconnect / Trace_Merge.

Records the measured example (policy 100 ms x3 cap 500; ok[1,2,err,3], fail, fail, fail,
ok[4,terminal,5], fail, ok[6]) and a timed scenario with the real chain, corrupts one field / one
line at a time and requires TLC to reject exactly the corrupted line - and to accept the
uncorrupted trace and a trace whose item stamps are merely later (left open by the property).
Usage: python3 selftest/c12_corrupt.py   (needs harness/target/debug/c12; exit 0 = all as expected)
"""
import copy
import json
import os
import sys

sys.path.insert(0, os.path.join(os.path.dirname(os.path.abspath(__file__)), "..", "bin"))
import vlib  # noqa: E402


def el(k, v, d=0):
    return {"k": k, "v": v, "d": d}


def oc(ok, body=(), lat=0, ed=0):
    return {"ok": ok, "lat": lat, "ed": ed, "body": list(body)}


EXAMPLE = {"mode": "stream", "pol": {"b0": 100, "mult": 3, "max": 500},
           "script": [oc(True, [el("Item", 1), el("Item", 2), el("Err", 3), el("Item", 4)]), oc(False), oc(False), oc(False),
                      oc(True, [el("Item", 5), el("Term", 6), el("Item", 7)]), oc(False), oc(True, [el("Item", 8)])]}
TIMED = {"mode": "handler", "pol": {"b0": 100, "mult": 3, "max": 500},
         "script": [oc(True, [el("Item", 1, 3), el("Err", 2), el("Item", 3, 2)], lat=5, ed=7), oc(False, lat=4), oc(True)]}


def main():
    ctx = vlib.Ctx("C12selftest", "quick", 1)
    ctx.build("c12")
    scn = ctx.path("scn.ndjson")
    with open(scn, "w") as f:
        f.write(json.dumps(EXAMPLE) + "\n" + json.dumps(TIMED) + "\n")
    out = ctx.path("trace.ndjson")
    ctx.harness("c12", "run", "--scenarios", scn, "--out", out, "--results", ctx.path("res.ndjson"))
    lines = ctx.read_trace(out)
    cut = [i for i, l in enumerate(lines) if l["a"] == "Reset"][1]
    ex, timed = lines[:cut], lines[cut:]
    assert [l["at"] for l in ex if l["a"] == "InitCall"] == [0, 0, 100, 400, 900, 900, 1000, 1000], ex

    def idx(seg, pred, nth=0):
        return [i for i, l in enumerate(seg) if pred(l)][nth]

    cases = []  # (name, segment, expected rejected line within the segment (0-based) or None)

    def case(name, seg, f, expect):
        s = copy.deepcopy(seg)
        f(s)
        cases.append((name, s, expect))

    case("uncorrupted", ex, lambda s: None, None)
    i = idx(ex, lambda l: l["a"] == "Wait", 1)
    case("second wait 300 -> 200 (no growth)", ex, lambda s: s[i].update(at=s[i]["at"] - 100), i)
    i2 = idx(ex, lambda l: l["a"] == "Emit" and l["v"] == 2)
    case("item 2 lost", ex, lambda s: s.pop(i2), i2)
    case("item 2 twice", ex, lambda s: s.insert(i2, dict(s[i2])), i2 + 1)
    case("items 1,2 swapped", ex, lambda s: (s[i2 - 1].update(v=2), s[i2].update(v=1)), i2 - 1)
    i3 = idx(ex, lambda l: l["a"] == "Emit" and l["k"] == "Notice")
    case("notice twice", ex, lambda s: s.insert(i3, dict(s[i3])), i3 + 1)
    case("notice missing", ex, lambda s: s.pop(i3), i3)
    i4 = idx(ex, lambda l: l["a"] == "Emit" and l["k"] == "Notice", 1)
    case("suppressed item 7 leaks after the terminal error", ex,
         lambda s: s.insert(i4, {"a": "Emit", "k": "Item", "v": 7, "at": 900, "via": "stream"}), i4)
    case("terminal error passed through", ex,
         lambda s: s.insert(i4, {"a": "Emit", "k": "Term", "v": 6, "at": 900, "via": "stream"}), i4)
    i5 = idx(ex, lambda l: l["a"] == "Emit" and l["k"] == "Err")
    case("non-terminal error swallowed", ex, lambda s: s.pop(i5), i5)
    case("error to the handler in stream mode", ex, lambda s: s[i5].update(via="handler"), i5)
    i6 = idx(ex, lambda l: l["a"] == "InitCall", 1)
    case("re-init 1 ms after the connection ended", ex, lambda s: s[i6].update(at=1), i6)
    case("stream ended", ex, lambda s: s[-1].update(k="ended"), len(ex) - 1)
    case("quiet before the script is exhausted", ex, lambda s: s.__delitem__(slice(i4, len(s) - 1)), i4)
    case("timed uncorrupted", timed, lambda s: None, None)

    def later(s):  # the first item is delivered 1 ms after it became available; all that follows shifts
        first = idx(s, lambda l: l["a"] == "Emit")
        for l in s[first:]:
            if "at" in l and l["a"] != "Stop":
                l["at"] += 1
    case("timed: first item delivered 1 ms late, the rest shifted (left open by the property)", timed, later, None)
    j = idx(timed, lambda l: l["a"] == "Emit" and l["k"] == "Item")
    case("timed: item before it was available", timed, lambda s: s[j].update(at=s[j]["at"] - 1), j)
    j2 = idx(timed, lambda l: l["a"] == "Wait")
    case("timed: back-off measured from the call, not from the failure", timed, lambda s: (s[j2].update(at=s[j2]["at"] - 4), s[j2 + 1].update(at=s[j2 + 1]["at"] - 4)), j2)

    all_lines, expect = [], []
    for name, seg, e in cases:
        if e is not None:
            expect.append((name, len(all_lines) + e + 1))
        all_lines += seg
    p = ctx.path("corrupt.ndjson")
    with open(p, "w") as f:
        for l in all_lines:
            f.write(json.dumps(l) + "\n")
    _, bad, _ = ctx.tlc_trace("Trace_Reconnect", "Trace_Reconnect.cfg", p)
    ok = sorted(bad) == sorted(n for _, n in expect)
    for name, n in expect:
        print("  %-75s line %4d %s" % (name, n, "rejected" if n in bad else "NOT REJECTED"))
    for n in bad:
        if n not in [x for _, x in expect]:
            print("  unexpected rejection of line %d: %s" % (n, all_lines[n - 1]))

    # ---- wire level (real OKX connection against the loopback exchange)
    def fr(t, *vs):
        return {"t": t, "vs": list(vs)}
    wscn = {"mode": "stream", "pol": {"b0": 125, "mult": 2, "max": 60000},
            "wire": [{"need": 2, "frames": [fr("data", 1, 2), fr("conf"), fr("data", 3, 4), fr("garbage", 5), fr("data", 6), fr("conf"),
                                            fr("data", 7, 8, 9), fr("garbage", 10), fr("data", 11)]},
                     {"need": 2, "frames": [fr("conf"), fr("conf"), fr("data", 12, 13)]}]}
    with open(scn, "w") as f:
        f.write(json.dumps(wscn) + "\n")
    ctx.harness("c12", "wire", "--scenarios", scn, "--out", out)
    w = ctx.read_trace(out)
    assert [l["v"] for l in w if l["a"] == "Emit" and l["k"] != "Notice"] == [3, 4, 6, 7, 8, 9, 10, 11, 12, 13], w
    wcases, wexpect, wall = [], [], []

    def wcase(name, f, e):
        s = copy.deepcopy(w)
        f(s)
        wcases.append((name, s, e))
    at = lambda v: idx(w, lambda l: l["a"] == "Emit" and l["v"] == v and l["k"] != "Notice")
    wcase("wire uncorrupted", lambda s: None, None)
    wcase("wire: frame buffered between the confirmations lost", lambda s: s.__delitem__(slice(at(3), at(6))), at(3))
    wcase("wire: buffered frames delivered in reverse", lambda s: (s[at(3)].update(v=6), s[at(4)].update(v=4), s[at(6)].update(v=3)), at(3))
    wcase("wire: trades of one frame reversed", lambda s: (s[at(7)].update(v=9), s[at(9)].update(v=7)), at(7))
    wcase("wire: frame sent before any confirmation delivered", lambda s: s.insert(at(3), {"a": "Emit", "k": "Item", "v": 1, "at": 0, "via": "stream"}), at(3))
    wcase("wire: garbage after validation swallowed", lambda s: s.pop(at(10)), at(10))
    wcase("wire: cut before the second connection delivered everything", lambda s: s.__delitem__(slice(at(13), len(s) - 1)), at(13))
    for name, seg, e in wcases:
        if e is not None:
            wexpect.append((name, len(wall) + e + 1))
        wall += seg
    with open(p, "w") as f:
        for l in wall:
            f.write(json.dumps(l) + "\n")
    _, wbad, _ = ctx.tlc_trace("Trace_Reconnect", "Trace_Reconnect.cfg", p)
    ok = ok and sorted(wbad) == sorted(n for _, n in wexpect)
    for name, n in wexpect:
        print("  %-75s line %4d %s" % (name, n, "rejected" if n in wbad else "NOT REJECTED"))
    for n in wbad:
        if n not in [x for _, x in wexpect]:
            print("  unexpected rejection of line %d: %s" % (n, wall[n - 1]))

    # ---- merge
    ops = ["SendL", "SendL", "SendR", "Poll", "Poll", "Poll", "Poll", "CloseR", "Poll", "Poll", "SendL"]
    with open(scn, "w") as f:
        f.write(json.dumps({"ops": ops, "variant": 0}) + "\n")
    ctx.harness("c12", "merge-run", "--scenarios", scn, "--out", out)
    m = ctx.read_trace(out)
    assert [l["r"] for l in m if l["a"] == "Poll"] == ["Item", "Item", "Item", "Pending", "End", "End"], m
    mcases, mexpect, mall = [], [], []

    def mcase(name, f, e):
        s = copy.deepcopy(m)
        f(s)
        mcases.append((name, s, e))
    polls = [i for i, l in enumerate(m) if l["a"] == "Poll"]
    items = [i for i in polls if m[i]["r"] == "Item"]
    lefts = [i for i in items if m[i]["v"] < 100]
    mcase("merge uncorrupted", lambda s: None, None)
    mcase("left items out of order", lambda s: (s[lefts[0]].update(v=2), s[lefts[1]].update(v=1)), lefts[0])
    mcase("an item twice", lambda s: s[items[1]].update(v=s[items[0]]["v"]), items[1])
    mcase("pending while an item is available", lambda s: s[items[2]].update(r="Pending", v=0), items[2])
    mcase("item never delivered, pending instead", lambda s: s.__delitem__(items[2]), polls[3] - 1)
    mcase("no end although the right input ended", lambda s: s[polls[4]].update(r="Pending"), polls[4])
    mcase("an item after the end", lambda s: s[polls[5]].update(r="Item", v=3), polls[5])
    mcase("send refused while the stream is alive", lambda s: s[1].update(r="refused"), 1)
    for name, seg, e in mcases:
        if e is not None:
            mexpect.append((name, len(mall) + e + 1))
        mall += seg
    with open(p, "w") as f:
        for l in mall:
            f.write(json.dumps(l) + "\n")
    _, mbad, _ = ctx.tlc_trace("Trace_Merge", "Trace_Merge.cfg", p)
    ok = ok and sorted(mbad) == sorted(n for _, n in mexpect)
    for name, n in mexpect:
        print("  %-75s line %4d %s" % (name, n, "rejected" if n in mbad else "NOT REJECTED"))
    for n in mbad:
        if n not in [x for _, x in mexpect]:
            print("  unexpected rejection of line %d: %s" % (n, mall[n - 1]))
    import shutil
    shutil.rmtree(ctx.work, ignore_errors=True)
    print("C12 binding self-test:", "PASS" if ok else "FAIL")
    return 0 if ok else 1


if __name__ == "__main__":
    sys.exit(main())
