SPECIFICATION SpecMkt
CONSTANTS
  CID = {"c1"}
  EXCH = {"d0", "x1", "x2"}
  TRADED = {"x1", "x2"}
  MaxSends = 2
  MaxKills = 2
  MaxMkt = 2
INVARIANTS TypeOK AtMostOnce InFlightBacked Routed ConnMatchesLinks DataOnlyAccountDown NeverGloballyHealthy
PROPERTIES Resolved Noticed Synced OnDisconnectExact
CHECK_DEADLOCK FALSE
