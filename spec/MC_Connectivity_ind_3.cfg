SPECIFICATION IndSpec
CONSTANTS
  EXCH = {e1, e2, e3}
INVARIANTS TypeOK ConnIff
PROPERTIES ExactlyThatLink DownMarks HealedByNext OnlyOwnEvents
CHECK_DEADLOCK TRUE
