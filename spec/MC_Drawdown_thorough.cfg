SPECIFICATION Spec
CONSTANTS
  Values = {1, 2, 3, 4, 5}
  Gaps = {1, 2}
  MaxLen = 5
INVARIANTS TypeOK RunIsRef PeakToTrough Recovery OnePerPeak NoneIffMonotone MaxIsLargest ClassicMDD
CHECK_DEADLOCK FALSE
