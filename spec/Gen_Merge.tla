------------------------------ MODULE Gen_Merge ------------------------------
(* Schedule generation for the merge driver: every behaviour of Merge of exactly MaxLen steps,  *)
(* printed as the list of what the driver has to do - SendL | SendR | CloseL | CloseR | Poll.   *)
(* The outcome of a poll is the implementation's choice and is judged by Trace_Merge, so        *)
(* behaviours that differ only in poll outcomes print the same schedule (bin/check dedups).     *)
(* Exhaustive: all poll interleavings of Merge's small graph; long schedules come from the      *)
(* harness's seeded random driver (`c12 merge-random`).                                         *)
EXTENDS Merge, Json
CONSTANTS MaxLen
VARIABLES hist, fin

gvars == <<vars, hist, fin>>

GInit == Init /\ hist = <<>> /\ fin = FALSE

Op(name, A) == A /\ hist' = Append(hist, name)

GStep == /\ ~fin /\ Len(hist) < MaxLen
         /\ \/ Op("SendL", SendL(Len(sentL) + 1))
            \/ Op("SendR", SendR(100 + Len(sentR) + 1))
            \/ Op("CloseL", CloseL)
            \/ Op("CloseR", CloseR)
            \/ Op("Poll", Poll)
         /\ UNCHANGED fin

GFinish == /\ ~fin /\ Len(hist) = MaxLen
           /\ fin' = TRUE
           /\ UNCHANGED <<vars, hist>>

GSpec  == GInit /\ [][GStep \/ GFinish]_gvars

Emit == fin => PrintT(<<"SCN", ToJson([ops |-> hist])>>)
=============================================================================
