SPECIFICATION Spec
CONSTANTS
  MaxOutcomes = 3
  MaxBody = 1
  MaxElems = 2
  Lats = {0, 7}
  Gaps = {0, 3}
  Slack = {0}
  Policies <- PoliciesT
  Modes <- ModesAll
INVARIANT Emit
CHECK_DEADLOCK FALSE
