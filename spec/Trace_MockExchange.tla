------------------------- MODULE Trace_MockExchange -------------------------
(* Trace validation (impl -> spec): every line recorded from the real        *)
(* exchange must be a step MockExchange allows.                              *)
(*   {"a":"Reset","fee":..,"lat":..,"cfg":{bal,open},"post":{bal,open,trades,notif}}   *)
(*        a fresh exchange built from the configuration `cfg`                *)
(*   {"a":"open"|"snapshot"|"balances"|"orders"|"trades"|"cancel"|"kill",    *)
(*    t, side, p, q, instr, kind, since,                                     *)
(*    "out":"ok"|"rej"|"query"|"offline"|"killed", "why", "id", "filled", "rt", "echo",  *)
(*    "res":{bal,open,trades}, "post":{bal,open,trades,notif}}               *)
(*        one request, the answer, the projected ledger after it             *)
(*        (`rt` = the exchange time the response of an accepted order       *)
(*        carries, -1 otherwise; `echo` = 1 iff an open / cancel response   *)
(*        carries the request's own key, side, price, quantity, kind;        *)
(*        "kill": the harness ended the exchange task - afterwards the       *)
(*        ledger cannot be observed any more (`post` repeats the last one),  *)
(*        only that every call answers "offline" and nothing is announced)   *)
(*   "out":"lost" (with "drop" > 0): an open-order request whose requester   *)
(*        stopped waiting before the exchange handled it.  The answer is not  *)
(*        observable, but it is still an OpenOrder: whether it is accepted is *)
(*        what the spec says, and ledger, fill, id and notifications must be  *)
(*        exactly those of an answered request (the observable effects of a   *)
(*        request do not depend on whether its response is consumed).  The id *)
(*        and the clock reading are read off the fill it has to leave.        *)
(*   {"a":"burst","k":k,"reqs":[ {a,t,side,p,q,instr,kind,since,drop,        *)
(*        out,why,id,filled,rt,echo,res} x k ],"post":{bal,open,trades,notif}} *)
(*        k >= 2 requests that were QUEUED TOGETHER (every one sent before     *)
(*        any answer was awaited - also before the exchange task was started), *)
(*        their k answers in queue order, and ONE observation of the ledger    *)
(*        and the notification history, made after the whole burst.  Accepted  *)
(*        iff it is what the specification's own actions yield when applied    *)
(*        in queue order (MockExchange::run takes the requests from a FIFO     *)
(*        channel, one per loop iteration): the line is consumed in k steps    *)
(*        of the checker, one `Serve` per request (sub-index `j`); the first   *)
(*        k-1 are held against the answer only (accepted iff funded BY THE     *)
(*        LEDGER THE EARLIER REQUESTS OF THE BURST LEFT, fresh id, clock, a    *)
(*        query shows that intermediate ledger), the last one also against     *)
(*        `post`: balances, fills and the notification history must be those   *)
(*        of the k-fold composition - one balance and one trade notification   *)
(*        PER accepted order of the burst, the balance notifications in queue  *)
(*        order, each carrying the balance after THAT order.  The step         *)
(*        formulas of C08 (Notif11, FreshIds, ...) hold on every one of the k  *)
(*        steps (TProps).  Open: how the notifications of different kinds      *)
(*        interleave within a burst (the projection re-pairs the j-th balance  *)
(*        with the j-th trade notification).                                   *)
(*   a burst line with "hang" > 0 is a HANG-UP, the end of an exchange's life:  *)
(*        its k >= 1 requests are open orders nobody waits for ("out":"lost")  *)
(*        and after them the LAST REQUEST SENDER was dropped while the orders  *)
(*        were still inside the exchange's latency window; only the account    *)
(*        stream was still listened to.  For the specification nothing special *)
(*        happens (a request is served the same way whatever its requester     *)
(*        does afterwards; going away is not a step of the exchange): the line *)
(*        is the burst of its requests.  The ledger cannot be observed any     *)
(*        more (`post` repeats the last one and is not judged) - what is       *)
(*        judged is the notification history: one balance and one trade        *)
(*        notification per order the specification accepts, with the balance   *)
(*        after that order; id and clock reading are read off the trade        *)
(*        notification the order has to leave.                                 *)
(* Amounts are integers in 1/100 units, times in ms.                         *)
(* A line that is not a step of the spec is recorded in `bad` together with  *)
(* the names of the clauses of C08 it breaks (`why`), and the logged state   *)
(* is adopted, so one pass reports every rejected line and the clauses are   *)
(* judged independently of one another.                                      *)
EXTENDS MockExchange, Json, IOUtils

Rec == ndJsonDeserialize(IOEnv.TRACE)

LOCAL INSTANCE SequencesExt

VARIABLES l, j, skip, bad, why   \* j: the request of a burst line that is served next (1 otherwise)
                                 \* skip: the burst was rejected at an earlier request, the rest is passed over
tvars == <<vars, l, j, skip, bad, why>>

BalOf(b) == [a \in Assets |-> [total |-> b[a].total, free |-> b[a].free]]
SetOf(s) == {s[i] : i \in DOMAIN s}
ReqOf(x) == Req(x.a, x.t, x.side, x.p, x.q, x.instr, x.kind, x.since)

\* the exchange clock is observable only through accepted orders (the response and the fill
\* carry it); otherwise any admissible reading will do - take the code's
ClockOf(x) == IF x.out = "ok" THEN x.rt ELSE NowAfter(ReqOf(x))

\* a line whose answer nobody read, completed with the answer the specification gives
Eff(x) == IF x.out # "lost" THEN x
          ELSE IF ~up THEN [x EXCEPT !.out = "offline"]
          ELSE LET pt == x.post.trades
                   \* no fill left behind: id and clock stay unobserved (any admissible value)
                   f  == IF Len(pt) = Len(trades) + 1 THEN pt[Len(pt)]
                         ELSE [NoFill EXCEPT !.id = nextId, !.t = NowAfter(ReqOf(x))]
               IN IF Accepts(ReqOf(x))
                  THEN [x EXCEPT !.out = "ok", !.id = f.id, !.filled = x.q, !.rt = f.t]
                  ELSE [x EXCEPT !.out = "rej"]

ResetResp == Resp([NoReq EXCEPT !.op = "Reset"], "init", "-", -1, 0)

TInit == /\ l = 1 /\ j = 1 /\ skip = FALSE /\ bad = <<>> /\ why = <<>>
         /\ fee = 0 /\ lat = 0 /\ bal = NoBal /\ orders = {} /\ up = TRUE /\ nextId = 0 /\ now = 0
         /\ trades = <<>> /\ notif = <<>>
         /\ last = Resp(NoReq, "init", "-", -1, 0)
         /\ res = NoRes

\* a fresh exchange shows exactly its configuration and an empty history
ResetOK(x) == /\ BalOf(x.post.bal) = BalOf(x.cfg.bal)
              /\ SetOf(x.post.open) = SetOf(x.cfg.open) /\ Len(x.post.open) = Len(x.cfg.open)
              /\ Len(x.post.trades) = 0 /\ Len(x.post.notif) = 0

Adopt(x) == /\ bal' = BalOf(x.post.bal)
            /\ orders' = SetOf(x.post.open)
            /\ trades' = x.post.trades
            /\ notif' = x.post.notif

Single(x) == x.a # "Reset" /\ x.a # "burst"

TReset == /\ Rec[l].a = "Reset"
          /\ l' = l + 1 /\ j' = 1 /\ skip' = FALSE
          /\ fee' = Rec[l].fee /\ lat' = Rec[l].lat
          /\ Adopt(Rec[l])
          /\ up' = TRUE
          /\ nextId' = 0 /\ now' = 0 /\ last' = ResetResp /\ res' = NoRes
          /\ IF ResetOK(Rec[l]) THEN UNCHANGED <<bad, why>>
             ELSE /\ bad' = Append(bad, l)
                  /\ why' = Append(why, [l |-> l, f |-> {"InitReflects"}, j |-> 0])

(* The clauses of C08 on one logged request x, evaluated in the state before it:  *)
(* RespChecks needs the answer only, PostChecks also the ledger `p` observed after. *)
RespChecks(x) ==
  LET r   == ReqOf(x)
      acc == x.out = "ok"
      queryOps == {"snapshot", "balances", "orders", "trades"}
  IN [ AcceptIff    |-> (r.op = "open" /\ up) => (x.out \in {"ok", "rej"} /\ (acc <=> Accepts(r))),
       FreshIds     |-> acc => x.id \in FreshIds,
       OneFill      |-> acc => x.filled = r.q,
       Clock        |-> acc => x.rt \in ClockChoices(r),
       QueriesReflect |-> /\ (r.op \in queryOps /\ up) <=> (x.out = "query")
                          /\ (r.op = "snapshot" /\ up) =>
                                ( /\ BalOf(x.res.bal) = bal
                                  /\ SetOf(x.res.open) = orders /\ Len(x.res.open) = Cardinality(orders) )
                          /\ (r.op = "balances" /\ up) => BalOf(x.res.bal) = bal
                          /\ (r.op = "orders" /\ up) =>
                                ( /\ SetOf(x.res.open) = OpenOnly(orders)
                                  /\ Len(x.res.open) = Cardinality(OpenOnly(orders)) )
                          \* exactly the fills with time >= since, in whatever order
                          /\ (r.op = "trades" /\ up) => SameFills(x.res.trades, TradesSince(r.since)),
       \* the exchange task has ended <=> every call is answered "offline" (a cancel may be
       \* answered so by a running exchange too: it does not support cancels)
       Offline      |-> /\ (~up /\ r.op # "kill") => x.out = "offline"
                        /\ (x.out = "offline") => (~up \/ r.op = "cancel")
                        /\ (r.op = "cancel" /\ up) => x.out \in CancelOutcomes
                        /\ (r.op = "kill") <=> (x.out = "killed"),
       \* open / cancel responses carry the request's own key, side, price, quantity
       Echo         |-> (r.op \in {"open", "cancel"}) => x.echo = 1 ]

PostChecks(x, p) ==
  LET r   == ReqOf(x)
      acc == x.out = "ok"
      pb  == BalOf(p.bal)
      pt  == p.trades
      pn  == p.notif
      n0  == Len(notif)
  IN [ ExactDebit   |-> acc => (Listed(r) /\ pb = Debit(bal, Spent(r), Need(r))),
       \* judged on the step that breaks it (the logged state is adopted afterwards)
       NonNegative  |-> (\A a \in Assets : bal[a].free >= 0 /\ bal[a].total >= 0 /\ bal[a].total = bal[a].free)
                          => (\A a \in Assets : pb[a].free >= 0 /\ pb[a].total >= 0 /\ pb[a].total = pb[a].free),
       RejectPure   |-> ~acc => (pb = bal /\ pt = trades /\ pn = notif),
       OneFill      |-> acc => pt = Append(trades, Fill(x.id, r, x.rt)),
       Notif11      |-> acc => ( /\ Len(pn) = n0 + 2 /\ SubSeq(pn, 1, n0) = notif
                                 /\ pn[n0 + 1].k = "balance" /\ pn[n0 + 2].k = "trade" ),
       NotifContent |-> (acc /\ Len(pn) = n0 + 2) =>
                             ( /\ pn[n0 + 1] = BalNotif(Spent(r), pb[Spent(r)])
                               /\ pn[n0 + 2] = FillNotif(Fill(x.id, r, x.rt)) ),
       OrdersUnchanged |-> SetOf(p.open) = orders ]

(* The last request x of a burst against the one observation p made after the burst: the state  *)
(* before it is the one the specification reached through the earlier requests of the burst, so *)
(* p must be exactly what MockExchange!Accept (AfterBal, AfterTrades, AfterNotif) / a rejection *)
(* or query (nothing) makes of it.  The clauses name WHAT differs of the k-fold composition.    *)
BurstChecks(x, p, h) ==
  LET r   == ReqOf(x)
      acc == x.out = "ok"
      pb  == BalOf(p.bal)
      pn  == p.notif
      eb  == IF acc THEN AfterBal(r) ELSE bal
      et  == IF acc THEN AfterTrades(r, x.id, x.rt) ELSE trades
      en  == IF acc THEN AfterNotif(r, x.id, x.rt) ELSE notif
  IN [ BurstLedger  |-> h > 0 \/ pb = eb,                \* (after a hang-up the ledger is not observable)
       BurstFills   |-> h > 0 \/ p.trades = et,
       NonNegative  |-> h > 0 \/ \A a \in Assets : pb[a].free >= 0 /\ pb[a].total >= 0 /\ pb[a].total = pb[a].free,
       \* one balance and one trade notification per accepted order of the burst, nothing else
       Notif11      |-> Len(pn) = Len(en) /\ \A i \in 1..Len(pn) : pn[i].k = en[i].k,
       \* ... in queue order, the balance notification carrying the balance after THAT order
       NotifContent |-> (Len(pn) = Len(en) /\ \A i \in 1..Len(pn) : pn[i].k = en[i].k) => pn = en,
       OrdersUnchanged |-> h > 0 \/ SetOf(p.open) = orders ]

FailingOf(c) == {n \in DOMAIN c : ~c[n]}
Failing(y) == LET x == Eff(y) IN FailingOf(RespChecks(x)) \cup FailingOf(PostChecks(x, x.post))
StepOK(x)  == Failing(x) = {}

\* what the log shows of the step, against the spec's own action
ObservedPost(p) == /\ bal' = BalOf(p.bal)
                   /\ orders' = SetOf(p.open)
                   /\ trades' = p.trades
                   /\ notif' = p.notif

ObservedResp(x) ==
               /\ last'.out = x.out
               /\ (x.out = "ok" => last'.id = x.id /\ last'.filled = x.filled)
               /\ ((x.a = "snapshot" /\ x.out = "query") => res'.bal = BalOf(x.res.bal) /\ res'.open = SetOf(x.res.open))
               /\ ((x.a = "balances" /\ x.out = "query") => res'.bal = BalOf(x.res.bal))
               /\ ((x.a = "orders"   /\ x.out = "query") => res'.open = SetOf(x.res.open))
               /\ ((x.a = "trades"   /\ x.out = "query") => SameFills(res'.trades, x.res.trades))

Observed(x) == ObservedPost(x.post) /\ ObservedResp(x)

TStepOK == /\ Single(Rec[l])
           /\ l' = l + 1 /\ j' = 1 /\ skip' = FALSE
           /\ StepOK(Rec[l])
           /\ Serve(ReqOf(Rec[l]), Eff(Rec[l]).id, ClockOf(Eff(Rec[l])), Rec[l].out)   \* the spec's own action
           /\ Observed(Eff(Rec[l]))
           /\ UNCHANGED <<bad, why>>

TStepBad == /\ Single(Rec[l])
            /\ l' = l + 1 /\ j' = 1 /\ skip' = FALSE
            /\ ~StepOK(Rec[l])
            /\ Adopt(Rec[l])
            /\ LET e == Eff(Rec[l]) IN
                 /\ nextId' = IF e.out = "ok" /\ e.id >= nextId THEN e.id + 1 ELSE nextId
                 /\ now' = IF e.out = "ok" /\ e.rt \in ClockChoices(ReqOf(e)) THEN e.rt ELSE NowAfter(ReqOf(e))
                 /\ last' = Resp(ReqOf(e), e.out, "-", e.id, e.filled)
            /\ res' = NoRes
            /\ up' = IF Rec[l].a = "kill" \/ (Rec[l].out = "offline" /\ Rec[l].a # "cancel") THEN FALSE ELSE up
            /\ UNCHANGED world
            /\ bad' = Append(bad, l)
            /\ why' = Append(why, [l |-> l, f |-> Failing(Rec[l]), j |-> 0])

(* ---- a burst line: one checker step per request, the spec's own action every time ---- *)
\* a request nobody waited for (hang-up lines), completed with the answer the specification gives;
\* id and clock are those of the trade notification it has to leave (the next pair of the history)
HEff(x) == IF x.out # "lost" THEN x
           ELSE IF ~up THEN [x EXCEPT !.out = "offline"]
           ELSE LET pn == Rec[l].post.notif
                    n0 == Len(notif)
                    f  == IF Len(pn) >= n0 + 2 /\ pn[n0 + 2].k = "trade" THEN pn[n0 + 2].trade
                          ELSE [NoFill EXCEPT !.id = nextId, !.t = NowAfter(ReqOf(x))]
                IN IF Accepts(ReqOf(x))
                   THEN [x EXCEPT !.out = "ok", !.id = f.id, !.filled = x.q, !.rt = f.t]
                   ELSE [x EXCEPT !.out = "rej"]
Item       == HEff(Rec[l].reqs[j])
BurstLen   == Len(Rec[l].reqs)
BurstFailing == IF j < BurstLen THEN FailingOf(RespChecks(Item))
                ELSE FailingOf(RespChecks(Item)) \cup FailingOf(BurstChecks(Item, Rec[l].post, Rec[l].hang))

\* a request of the burst that is not the last: judged by its answer; the ledger it leaves is
\* the specification's (nobody observed it)
TBurstMid == /\ Rec[l].a = "burst" /\ j < BurstLen /\ ~skip
             /\ BurstFailing = {}
             /\ Serve(ReqOf(Item), Item.id, ClockOf(Item), Item.out)
             /\ ObservedResp(Item)
             /\ l' = l /\ j' = j + 1 /\ skip' = FALSE
             /\ UNCHANGED <<bad, why>>

\* the last one: the observation made after the burst must be the specification's state
TBurstLast == /\ Rec[l].a = "burst" /\ j = BurstLen /\ ~skip
              /\ BurstFailing = {}
              /\ Serve(ReqOf(Item), Item.id, ClockOf(Item), Item.out)
              /\ IF Rec[l].hang > 0 THEN notif' = Rec[l].post.notif ELSE ObservedPost(Rec[l].post)
              /\ ObservedResp(Item)
              /\ l' = l + 1 /\ j' = 1 /\ skip' = FALSE
              /\ UNCHANGED <<bad, why>>

\* the burst is not what the specification allows (noticed at its j-th request): recorded, the
\* observation is adopted, the rest of the burst is not judged (passed over one request per step,
\* so that every line takes as many steps as it has requests)
TBurstBad == /\ Rec[l].a = "burst" /\ ~skip
             /\ BurstFailing # {}
             /\ Adopt(Rec[l])
             /\ LET its  == Rec[l].reqs
                     oks  == {its[i].id : i \in {i \in DOMAIN its : its[i].out = "ok"}}
                     e    == its[BurstLen]
                 IN /\ nextId' = IF \E i \in oks : i >= nextId THEN 1 + CHOOSE i \in oks : \A k \in oks : k <= i ELSE nextId
                    /\ last' = Resp(ReqOf(e), e.out, "-", e.id, e.filled)
                    /\ up' = IF \E i \in DOMAIN its : its[i].out = "offline" /\ its[i].a # "cancel" THEN FALSE ELSE up
             /\ now' = now /\ res' = NoRes
             /\ UNCHANGED world
             /\ IF j < BurstLen THEN l' = l /\ j' = j + 1 /\ skip' = TRUE
                               ELSE l' = l + 1 /\ j' = 1 /\ skip' = FALSE
             /\ bad' = Append(bad, l)
             /\ why' = Append(why, [l |-> l, f |-> BurstFailing, j |-> j])

TBurstSkip == /\ Rec[l].a = "burst" /\ skip
              /\ IF j < BurstLen THEN l' = l /\ j' = j + 1 /\ skip' = TRUE
                                ELSE l' = l + 1 /\ j' = 1 /\ skip' = FALSE
              /\ UNCHANGED <<vars, bad, why>>

TNext == /\ l <= Len(Rec)
         /\ (TReset \/ TStepOK \/ TStepBad \/ TBurstMid \/ TBurstLast \/ TBurstBad \/ TBurstSkip)

TSpec == TInit /\ [][TNext]_tvars

\* the C08 formulas, evaluated on every accepted step of the implementation
TProps == [][last'.req.op = "Reset" \/ bad' # bad \/ skip \/ StepProps]_tvars

Done == l = Len(Rec) + 1 =>
          /\ PrintT(<<"TRACE_END", ToJson(bad)>>)
          /\ ndJsonSerialize(IOEnv.TRACE \o ".why", why)
\* a burst line takes as many steps as it has requests: the depth reached, counted in LINES
\* (1 + the number of lines consumed completely by d - 1 steps)
StepsOf(x) == IF x.a = "burst" THEN Len(x.reqs) ELSE 1
LineOf(d)  == 1 + FoldLeft(LAMBDA acc, x : IF acc.c + StepsOf(x) <= d - 1
                                           THEN [c |-> acc.c + StepsOf(x), n |-> acc.n + 1]
                                           ELSE [c |-> d, n |-> acc.n],
                           [c |-> 0, n |-> 0], Rec).n
Post == PrintT(<<"TRACE_DONE", LineOf(TLCGet("stats").diameter), Len(Rec)>>)
=============================================================================
