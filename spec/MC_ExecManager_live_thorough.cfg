SPECIFICATION FairSpec
CONSTANTS
  REQ = {1, 2, 3}
  T = 2
  ACCEPT = {0, 1}
  DELAY = {1, 2, 3}
  EX = 0
  INST = {0}
  SIDE = {"buy"}
  PRICE = {10}
  QTY = {1}
  BUNDLE = {"lim"}
  STALL = {}
  LateResponseOK = TRUE
  NoTimeout = FALSE
INVARIANTS TypeOK
PROPERTIES Answers
CHECK_DEADLOCK FALSE
