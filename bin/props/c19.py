"""C19 - decided on spec/EngineCore.tla (see props/enginecore.py for the shared pipeline)."""
from props import enginecore

MODULE = "EngineCore"
META = {"spec": ["EngineCore", "BarterSystem"]}


def check(ctx):
    # the real composition: the System API (`System::cancel_orders` / `close_positions` / ...) hands
    # exactly the command it was given - with its filter - to the engine, in order
    from props import composition
    composition.run(ctx, composition.C19_TAGS, runs=3 if ctx.quick else 20)
    return enginecore.check(ctx)


def replay(ctx, rp):
    if rp.get("kind") == "system":
        from props import composition
        composition.run(ctx, composition.C19_TAGS, runs=3)
        return ctx.finish(write_evidence=False)
    return enginecore.replay(ctx, rp)
