SPECIFICATION GSpecF
CONSTANTS
  PRICE = {1, 2, 3, 5, 7, 10, 20, 50}
  QTY = {1, 2, 3, 5, 8}
  FEE <- GenFeeWide
  MARK = {}
  MaxFills = 99
  MaxLen = 12
INVARIANT Emit
CHECK_DEADLOCK FALSE
