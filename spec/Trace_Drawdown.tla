--------------------------- MODULE Trace_Drawdown ---------------------------
(* Trace validation (impl -> spec) for C18: every line recorded from the    *)
(* implementation by `c18 random` / `c18 points` must show the figures the  *)
(* reference decomposition of Drawdown defines for the curve fed so far.    *)
(*   {"a":"Reset", ...}                       a fresh generator, or (rs = 1) *)
(*        the public reset() of the tear sheet generator that was fed the   *)
(*        previous curve: either way the spec state is Init again           *)
(*   {"a":"Persist", ..., "post":p}           serde store + restore         *)
(*   {"a":"Read", ..., "post":p}              generate() on the LIVE         *)
(*        DrawdownGenerator: post.cur is what the read returned             *)
(*   {"a":"AddPoint","t":..,"v":..,"post":p}  one point and the projected    *)
(*        figures after it, in integers: depth in 1e-4 units (rounded),     *)
(*        model time = ms / 1000, mean duration in ms                       *)
(* The spec's own action AddPoint advances curve / gen / emitted; the line  *)
(* is accepted when `Conf` holds between curve' and the logged figures,     *)
(* otherwise its number is recorded in `bad`.  Drawdown's invariants are    *)
(* evaluated on every state of the trace.                                   *)
EXTENDS Drawdown, Json, IOUtils, TLC

Rec == ndJsonDeserialize(IOEnv.TRACE)

VARIABLES l, bad
tvars == <<curve, gen, emitted, seen, sess, last, l, bad>>

\* |x - r * 1e4| <= 1   (the log carries depths rounded to 1e-4 units; depths may exceed 1 - a curve
\* can fall below zero - and r[1] * 1e4 stays below 2^31 over the trace driver's value set)
Approx(r, x) == AbsI(x * r[2] - r[1] * 10000) <= r[2]

DDOk(o, lg) == /\ o.has = lg.has
               /\ o.has => /\ o.d.start = lg.start /\ o.d.end = lg.end
                           /\ Approx(o.d.value, lg.e4)
MaxOk(S, lg) == /\ lg.has = (S # {})
                /\ lg.has => \E m \in MaxSet(S) : m.start = lg.start /\ m.end = lg.end /\ Approx(m.value, lg.e4)
\* integer-millisecond mean: within +- count ms of the exact mean (1 model time unit = 1000 ms)
MeanOk(S, lg, withCount) ==
  /\ lg.has = (S # {})
  /\ withCount => lg.count = Cardinality(S)
  /\ lg.has => LET m == MeanOf(S)
               IN /\ Approx(m.value, lg.e4)
                  /\ AbsI(lg.ms * m.dur[2] - 1000 * m.dur[1]) <= m.count * m.dur[2]

Conf(c, p) ==
  /\ p.peak.v = Peak(c).v /\ p.peak.t = Peak(c).t
  /\ p.emitted.obs => DDOk(EmittedBy(c), p.emitted)
  /\ DDOk(Current(c), p.cur)
  /\ MaxOk(Reported(c), p.max)
  /\ MeanOk(Reported(c), p.mean, TRUE)
  /\ DDOk(Current(c), p.fin_cur)
  /\ MaxOk(ReportedFin(c), p.fin_max)
  /\ MeanOk(ReportedFin(c), p.fin_mean, FALSE)

\* after a read the emitted field is not observed again
Conf2(c, p) == Conf(c, [p EXCEPT !.emitted.obs = FALSE])

TInit == /\ Init /\ l = 1 /\ bad = <<>>

TReset == /\ Rec[l].a = "Reset"
          /\ curve' = <<>> /\ gen' = Gen0 /\ emitted' = <<>> /\ seen' = NoDD
          /\ sess' = [clock |-> 0, fed |-> 0, resets |-> 0]
          /\ last' = [a |-> "Reset", t |-> 0, v |-> 0]
          /\ UNCHANGED bad

TStep == /\ Rec[l].a = "AddPoint"
         /\ AddPoint(Rec[l].t, Rec[l].v)                     \* the spec's own action
         /\ bad' = IF Conf(curve', Rec[l].post) THEN bad ELSE Append(bad, l)

\* a READ of the current drawdown on the live generator: the logged value is Current(curve) and
\* (ReadingIsPure) the line changes nothing - every later line is judged against the same curve
TRead == /\ Rec[l].a = "Read"
         /\ ReadCurrent                                      \* the spec's own action
         /\ bad' = IF DDOk(Current(curve), Rec[l].post.cur) /\ Conf2(curve, Rec[l].post) THEN bad ELSE Append(bad, l)

\* a store / restore of the generators: accepted only as a stutter of the abstract state; the figures
\* shown after it are judged like any others
TPersist == /\ Rec[l].a = "Persist"
            /\ Persist                                       \* the spec's own action
            /\ bad' = IF Conf2(curve, Rec[l].post) THEN bad ELSE Append(bad, l)

TNext == /\ l <= Len(Rec)
         /\ l' = l + 1
         /\ (TReset \/ TStep \/ TRead \/ TPersist)

TSpec == TInit /\ [][TNext]_tvars

Done == l = Len(Rec) + 1 => PrintT(<<"TRACE_END", ToJson(bad)>>)
Post == PrintT(<<"TRACE_DONE", TLCGet("stats").diameter, Len(Rec)>>)
=============================================================================
