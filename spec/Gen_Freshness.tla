---------------------------- MODULE Gen_Freshness ----------------------------
(* Scenario generation for C09: random delivery histories (with repetition,  *)
(* stale and equal timestamps, single messages and two-item snapshots).      *)
EXTENDS Freshness, Json
CONSTANT MaxLen
VARIABLES hist, done
gvars == <<held, delivered, last, hist, done>>

GInit == Init /\ hist = <<>> /\ done = FALSE

\* (a parameter keeps TLC from evaluating this once as a constant)
RandMsg(n) == Msg(RandomElement(ITEMS), RandomElement(TIMES), RandomElement(VALUES))

GStep == /\ ~done /\ Len(hist) < MaxLen
         \* (bound through singleton sets: a LET would re-draw at every reference)
         /\ \E m1 \in {RandMsg(Len(hist))}, m2 \in {RandMsg(Len(hist) + 1)}, k \in {RandomElement(1..5)} :
               IF k = 4 THEN (last' = <<Msg(m1.item, -1, 0)>> /\ UNCHANGED <<held, delivered>>)     \* Touch
               ELSE IF k = 5 THEN (last' = <<Msg(m1.item, -3, 0)>> /\ UNCHANGED <<held, delivered>>)  \* Notice
               ELSE Deliver(IF k = 1 /\ m1.item # m2.item THEN <<m1, m2>> ELSE <<m1>>)
         /\ hist' = Append(hist, last')
         /\ UNCHANGED done

GFinish == /\ ~done /\ Len(hist) = MaxLen
           /\ done' = TRUE
           /\ UNCHANGED <<held, delivered, last, hist>>

GSpec == GInit /\ [][GStep \/ GFinish]_gvars
Emit == done => PrintT(<<"SCN", ToJson([steps |-> hist])>>)
=============================================================================
