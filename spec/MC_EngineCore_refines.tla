------------------------ MODULE MC_EngineCore_refines ------------------------
(***************************************************************************)
(* Refinement: the connectivity component of EngineCore (st.conn, NEX = 3   *)
(* exchanges) implements spec/Connectivity.tla - the module whose invariant *)
(* is PROVED for any set of exchanges (Connectivity_proofs.tla).  EngineCore*)
(* is the specification the real Engine is bound to by recorded traces      *)
(* (Trace_EngineCore), so the proof speaks about the transitions the code   *)
(* is checked against.                                                      *)
(*                                                                         *)
(* Mapping: EXCH <- 0..NEX-1, global <- st.conn.global,                     *)
(*          link <- [e \in 0..NEX-1 |-> st.conn.ex[e + 1]]                  *)
(* Checked (TLC):                                                           *)
(*   ConnSpec      Conn!Spec: the first state satisfies Conn!Init and every *)
(*                 EngineCore step is a Connectivity step or leaves the     *)
(*                 connectivity component alone                             *)
(*   Labelled      stronger, per event: a market item of exchange e is      *)
(*                 Conn!MarketItem(e), an account item Conn!AccountItem(e), *)
(*                 a market / account disconnect notice Conn!MarketDown(e) /*)
(*                 Conn!AccountDown(e); every other event (commands,        *)
(*                 trading state, shutdown) leaves connectivity unchanged   *)
(*   ConnInv       Conn!Inv in every state                                  *)
(* on three models (Mode):                                                  *)
(*   "deep"    Init, link events of all three exchanges + trading state, NO *)
(*             depth bound (view = st): the complete reachable connectivity *)
(*             graph of EngineCore, all 64 connectivity states              *)
(*   "wide"    one step of EVERY event of the bounded model's alphabet from *)
(*             every connectivity state of the invariant x trading          *)
(*             enabled / disabled (Conn!IndInit instead of Conn!Init)       *)
(*   "bounded" the existing bounded model of EngineCore (MC_EngineCore.cfg: *)
(*             MCEvents x MCEnvs, MaxSeq) unchanged                         *)
(* Vacuity: the next-state relation is written as a PARTITION of            *)
(* EngineCore's own relation by the Connectivity code path it exercises     *)
(* (R_* below; their disjunction is equivalent to the base relation), so    *)
(* that the action labels of TLC's state graph show that every one of the   *)
(* eight paths of Connectivity is witnessed by EngineCore steps.  R_Broken  *)
(* (a step that is not the labelled Connectivity step) must never occur.    *)
(***************************************************************************)
EXTENDS MC_EngineCore

CONSTANT Mode

EX == 0..(NEX - 1)
Conn == INSTANCE Connectivity WITH EXCH <- EX, global <- st.conn.global,
                                   link <- [e \in EX |-> st.conn.ex[e + 1]]

IsMkt(a)  == a \in {"Market", "MarketNoPrice"}
IsAcct(a) == a \in {"OrderSnap", "CancelResp", "Trade", "Balance"}

\* ---------------------------------------------------------------- the three models
HealthyLinks == <<"healthy", "healthy", "healthy">>
DeepEvents ==
       {E0("MarketNoPrice", ExOf(i), i) : i \in {0, 4, 5}}
  \cup {Ev("Balance", e, 0, "", "", "-", 4, FALSE, "-", <<>>, NoFilter) : e \in EX}
  \cup {E0(a, e, 0) : a \in {"MarketReconnecting", "AccountReconnecting"}, e \in EX}
  \cup {Ev("TradingState", 0, 0, "", "", "-", 0, FALSE, to, <<>>, NoFilter) : to \in {"Enabled", "Disabled"}}
DeepEnvs == {Env(HealthyLinks, <<>>, <<>>, <<>>)}
DeepNext == \E ev \in DeepEvents, env \in DeepEnvs : Process(ev, env)

\* every connectivity state of the invariant (global is determined by the links: 4^3 = 64)
H == {"Healthy", "Reconnecting"}
AllConn == {[global |-> IF AllHealthy(x) THEN "Healthy" ELSE "Reconnecting", ex |-> x] :
              x \in [1..NEX -> [market : H, account : H]]}
WideInit == /\ st \in {[trading |-> tr, conn |-> cn, inst |-> StInit(tr).inst] : tr \in {"Enabled", "Disabled"}, cn \in AllConn}
            /\ seq = 0 /\ tick = NoTick /\ dl = [x \in 1..NEX |-> {}]
            /\ last = [ev |-> NoEvent, env |-> NoEnv]
WideEnvs == MCEnvs1 \cup {Env(<<"unhealthy", "closed", "missing">>, <<>>, <<>>, <<>>)}
WideNext == seq = 0 /\ \E ev \in MCEvents, env \in WideEnvs : Process(ev, env)

RefInit == IF Mode = "wide" THEN WideInit ELSE Init
Base == CASE Mode = "deep" -> DeepNext
          [] Mode = "wide" -> WideNext
          [] OTHER         -> Next

\* ---------------------------------------------------------------- the labelled refinement
LabelledA ==
  LET ev == last'.ev IN
  CASE IsMkt(ev.a)                    -> Conn!MarketItem(ev.ex)
    [] IsAcct(ev.a)                   -> Conn!AccountItem(ev.ex)
    [] ev.a = "MarketReconnecting"    -> Conn!MarketDown(ev.ex)
    [] ev.a = "AccountReconnecting"   -> Conn!AccountDown(ev.ex)
    [] OTHER                          -> UNCHANGED Conn!vars

\* the base relation, split by the Connectivity code path the step exercises
R_MarketItemGlobalHealthy  == Base /\ IsMkt(last'.ev.a)  /\ Conn!MarketItemGlobalHealthy(last'.ev.ex)
R_MarketItemLinkHealthy    == Base /\ IsMkt(last'.ev.a)  /\ Conn!MarketItemLinkHealthy(last'.ev.ex)
R_MarketItemHeals          == Base /\ IsMkt(last'.ev.a)  /\ Conn!MarketItemHeals(last'.ev.ex)
R_AccountItemGlobalHealthy == Base /\ IsAcct(last'.ev.a) /\ Conn!AccountItemGlobalHealthy(last'.ev.ex)
R_AccountItemLinkHealthy   == Base /\ IsAcct(last'.ev.a) /\ Conn!AccountItemLinkHealthy(last'.ev.ex)
R_AccountItemHeals         == Base /\ IsAcct(last'.ev.a) /\ Conn!AccountItemHeals(last'.ev.ex)
R_MarketDown               == Base /\ last'.ev.a = "MarketReconnecting"  /\ Conn!MarketDown(last'.ev.ex)
R_AccountDown              == Base /\ last'.ev.a = "AccountReconnecting" /\ Conn!AccountDown(last'.ev.ex)
R_OtherEvent               == Base /\ ~IsMkt(last'.ev.a) /\ ~IsAcct(last'.ev.a)
                                   /\ last'.ev.a \notin {"MarketReconnecting", "AccountReconnecting"} /\ UNCHANGED Conn!vars
R_Broken                   == Base /\ ~LabelledA

RefNext == \/ R_MarketItemGlobalHealthy \/ R_MarketItemLinkHealthy \/ R_MarketItemHeals
           \/ R_AccountItemGlobalHealthy \/ R_AccountItemLinkHealthy \/ R_AccountItemHeals
           \/ R_MarketDown \/ R_AccountDown \/ R_OtherEvent \/ R_Broken

RefSpec == RefInit /\ [][RefNext]_vars
\* the plain relations (no partition: ten times cheaper for TLC) - used for the two big models, where the labels are
\* not needed: NeverBroken / Labelled are properties there, the witnesses come from the "deep" model
WideSpec == WideInit /\ [][WideNext]_vars

ConnSpec     == Conn!Spec                                      \* (deep, bounded: from Conn!Init)
ConnIndSpec  == Conn!IndSpec                                   \* (wide: from any state of Conn!Inv)
Labelled     == [][LabelledA]_vars
NeverBroken  == [][~R_Broken]_vars
ConnInv      == Conn!Inv
\* the step properties of Connectivity hold of EngineCore's steps (they are implied by Conn!Next + Conn!Inv - proved - and
\* are re-checked here on the mapped variables as a cross-check of the mapping itself)
ConnStepProps == [][Conn!ExactlyThatLinkA /\ Conn!DownMarksA /\ Conn!OnlyOwnEventsA]_vars
\* (Conn!HealedByNextA speaks about ANY exchange's item being enabled: under the mapping a stuttering engine step is a
\*  Conn!MarketItemGlobalHealthy(e) / ..LinkHealthy(e) step of every e that qualifies - fine, those e are Healthy)
ConnHealedByNext == [][Conn!HealedByNextA]_vars

DeepView == st
=============================================================================
