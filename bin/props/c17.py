"""C17 - running dataset statistics equal the statistics of the whole dataset (spec/Stats.tla)."""
import json

import vlib
from props import stats_common as sc

MODULE = "Stats"
META = {
    "level_text": "reference-model enumeration + replay",
    "level_note": "TLC checks the batch definitions (VarNonNeg, MeanInRange, order-freedom, Welford = batch in exact "
                  "arithmetic) on every sequence of the bounded model and emits every sequence with its exact batch "
                  "statistics; DataSetSummary::update is replayed on all of them (every prefix, every arrival order of "
                  "each multiset, scales 10^-9/1/10^9). Trusted: TLC, spec/Rational.tla, the projection functions in harness/src/stats_driver.rs (bins c16/c17/c18), the assumptions listed in the evidence file.",
    "technique": "TLC exhaustive + simulation (Pattern B: exact rationals replayed into the implementation)",
}
ASSUMPTIONS = [
    "'within decimal rounding': |impl - exact| <= 1e-18 * max(1, |exact|) after rescaling by the concretisation 10^e "
    "(vh::cmp::json_match tolerance), with an absolute floor of 1e-24 for sub-unit scales (rust_decimal keeps 28 places)",
    "dataset values are integers k in the model, concretised as k * 10^e, e in {-9, 0, 9}; the statistics are "
    "scale-equivariant (ShiftScale is model-checked)",
    "VarNonNeg and MeanInRange are required of the implementation's own values exactly (no tolerance)",
    "recurrence_relation_m is internal and not compared",
    "the values reach the summaries directly (DataSetSummary::update), through PnLReturns::update and through "
    "TearSheetGenerator::update_from_position (closed positions of cost 1 whose realised PnL is the value, zeros included; the "
    "instrument tear sheet's pnl_returns is what the engine keeps): `total` is judged as the running summary of all returns, "
    "`losses` of the negative ones, pnl_raw as their sum. The exit times of these positions are NOT monotone (every third one is "
    "delivered late, before the exits of the two delivered before it, at first before the session start): a dataset knows no "
    "time, the order of delivery is the order of the dataset",
    "the running summaries are serialisable: a serde_json store/restore at any point (spec action Persist, a stutter) must "
    "show the same figures and leave every later figure unchanged",
    "every tenth random dataset is a CONSTANT dataset (8..40 copies) of a value with 27-28 significant digits, judged by VarNonNeg, MeanInRange, range and zero variance only; "
    "random decimal datasets (mantissa <= 1e6, 0..8 decimal places) are judged by the laws of the specification "
    "(order-freedom, VarNonNeg, MeanInRange, shift/scale, std_dev^2 = variance) with tolerance 1e-18 * max(1, max|x|)^p",
]


def signature(r):
    f = sc.field_of(r["error"].split("arrival order")[-1].split("]: ")[-1] if "arrival order" in r["error"] else r["error"])
    return "%s%s:e%s" % ("order/" if "arrival order" in r["error"] else "", f.replace(" ", "_"), r.get("scale_e10", 0))


def judge(ctx, results, scns, label):
    for r in results:
        if r["ok"]:
            ctx.cov["traces_validated_against_impl"] += 1
            continue
        scn = scns[r["scn"]]
        xs = [s["x"] for s in scn["vals"]]
        ev = r.get("event", {})
        desc = "dataset %s fed to %s in order %s at scale 1e%s (running state stored and restored %s): after update #%d (%s) %s; state before: %s [%s]" % (
            xs, ev.get("route", "DataSetSummary::update"), ev.get("order", xs), r.get("scale_e10", 0), ev.get("store_restore", "-"),
            r["step"] + 1, ev.get("update"), r["error"], json.dumps(r["pre"]), label)
        rp = sc.replay_object(scn, r, ctx.seed)
        if "persist_mode" in r:
            rp["scenario"]["persist_mode"] = r["persist_mode"]
        ctx.violation(signature(r), desc, rp)
    ctx.cov["scenarios_replayed"] += len(scns)


def judge_laws(ctx, results, label):
    """random decimal datasets judged by the laws of the specification (no expected values involved)"""
    for r in results:
        if r["ok"]:
            ctx.cov["traces_validated_against_impl"] += 1
            continue
        law = r["error"].split(":")[0].replace(" ", "_")
        desc = "decimal dataset %s (other arrival order %s, shift %s): %s [%s]" % (
            r["event"]["xs"], r["event"]["perm"], r["event"]["shift"], r["error"], label)
        ctx.violation("law:" + law, desc, {"kind": "laws", "case": r["event"]})


def run_laws(ctx, label, *args):
    out = ctx.path("results_%s.ndjson" % label)
    info = ctx.harness("c17", *args, "--out", out)
    judge_laws(ctx, ctx.read_results(out), label)
    return info


def corrupt(scn):
    m = scn["vals"][-1]["exp"]["mean"]
    m["n"] = m["n"] + m["d"]            # mean + 1


def check(ctx):
    ctx.assumptions += ASSUMPTIONS
    ctx.build("c17")
    ctx.tlc_actions("MC_" + MODULE, "MC_Stats_C17_small.cfg", ["AddValueAny", "PersistAny"])
    ctx.tlc_mc("MC_" + MODULE, "MC_Stats_C17.cfg" if ctx.quick else "MC_Stats_C17_thorough.cfg", timeout=1500, coverage=False)
    # every sequence of the bounded model (all arrival orders of every multiset) ...
    p_t, scn_t = ctx.tlc_gen("Gen_" + MODULE, "GenT_Stats_C17.cfg" if ctx.quick else "GenT_Stats_C17_thorough.cfg", "all.ndjson", timeout=900)
    # ... and longer random datasets over a wider value set
    p_r, scn_r = ctx.tlc_gen("Gen_" + MODULE, "GenR_Stats_C17.cfg", "sim.ndjson", simulate=(400 if ctx.quick else 6000, 30), timeout=900)
    ctx.sample({"kind": "TLC enumerated dataset with batch statistics per prefix", "scenario": scn_t[len(scn_t) // 2]})
    ctx.sample({"kind": "TLC simulated dataset", "scenario": scn_r[0]})
    sc.selftest_binding(ctx, "c17", scn_r[0], corrupt, "mean")
    arms = {}
    for label, p, scns in (("enumerated", p_t, scn_t), ("simulated", p_r, scn_r)):
        info, results = sc.run_replay(ctx, "c17", p, label)
        for k, v in info.get("arm_hits", {}).items():
            arms[k] = arms.get(k, 0) + v
        judge(ctx, results, scns, label)
    if not ctx.violations and not all(arms.get(k) for k in ("store_restore", "runs_DataSetSummary_update", "runs_PnLReturns_update",
                                                            "runs_TearSheetGenerator_update_from_position")):
        raise vlib.ToolError("vacuous run: a route of the dataset statistics was never driven: %s" % arms)
    ctx.cov["arm_hits"] = arms
    # arbitrary decimals of mixed magnitude (beyond the integer domain TLC enumerates), judged by the
    # laws Stats.tla states and TLC checks on the batch definitions
    run_laws(ctx, "laws", "random", "--seed", ctx.seed, "--steps", 5000 if ctx.quick else 200000)
    return ctx.finish()


def replay(ctx, rp):
    ctx.build("c17")
    p = ctx.path("replay_scn.ndjson")
    if rp.get("kind") == "laws":
        with open(p, "w") as f:
            f.write(json.dumps(rp["case"]) + "\n")
        run_laws(ctx, "replay", "laws", "--in", p)
        return ctx.finish(write_evidence=False)
    with open(p, "w") as f:
        f.write(json.dumps(rp["scenario"]) + "\n")
    ctx.seed = rp.get("seed", ctx.seed)
    _, results = sc.run_replay(ctx, "c17", p, "replay")
    judge(ctx, results, [rp["scenario"]], "replay")
    return ctx.finish(write_evidence=False)
