----------------------------- MODULE Trace_Merge -----------------------------
(* Trace validation (impl -> spec) for `merge`: every line recorded by the driver must be a     *)
(* step of Merge.                                                                               *)
(*   {"a":"Reset"}                               a new pair of channels and a new merged stream *)
(*   {"a":"SendL"|"SendR","v":x,"r":""}          x was sent into the input ("refused": the send *)
(*                                               failed - acceptable only after the output has  *)
(*                                               ended; before, the merged stream owns live     *)
(*                                               receivers)                                     *)
(*   {"a":"CloseL"|"CloseR"}                     the input's sender was dropped                 *)
(*   {"a":"Poll","r":"Item"|"Pending"|"End","v":x}   one poll of the merged stream, its result  *)
(* A line that is no step of the spec is recorded in `bad`; the rest of that schedule is        *)
(* skipped.                                                                                     *)
EXTENDS Merge, Json, IOUtils

Rec == ndJsonDeserialize(IOEnv.TRACE)

VARIABLES l, bad, rej
tvars == <<vars, l, bad, rej>>

R == Rec[l]
Last(s) == s[Len(s)]

TInit == Init /\ l = 1 /\ bad = <<>> /\ rej = TRUE

TReset == /\ R.a = "Reset"
          /\ sentL' = <<>> /\ sentR' = <<>> /\ closedL' = FALSE /\ closedR' = FALSE
          /\ li' = 0 /\ ri' = 0 /\ out' = <<>> /\ done' = FALSE /\ last' = "none"
          /\ rej' = FALSE /\ UNCHANGED bad

TEnv == \/ R.a = "SendL" /\ R.r = "" /\ SendL(R.v)
        \/ R.a = "SendR" /\ R.r = "" /\ SendR(R.v)
        \/ R.a \in {"SendL", "SendR"} /\ R.r = "refused" /\ SendRefused
        \/ R.a = "CloseL" /\ CloseL
        \/ R.a = "CloseR" /\ CloseR

TPoll == /\ R.a = "Poll"
         /\ \/ R.r = "Item" /\ (TakeLeft \/ TakeRight) /\ Last(out') = R.v
            \/ R.r = "Pending" /\ PollPending
            \/ R.r = "End" /\ (EitherEnds \/ PollFused)

Accept == (TEnv \/ TPoll) /\ UNCHANGED <<l, bad, rej>>

TStepOK  == /\ ~rej /\ R.a # "Reset"
            /\ (TEnv \/ TPoll)
            /\ UNCHANGED <<bad, rej>>
TStepBad == /\ ~rej /\ R.a # "Reset"
            /\ ~ENABLED Accept
            /\ bad' = Append(bad, l) /\ rej' = TRUE
            /\ UNCHANGED vars
TSkip    == /\ rej /\ R.a # "Reset"
            /\ UNCHANGED <<vars, bad, rej>>

TNext == /\ l <= Len(Rec)
         /\ l' = l + 1
         /\ (TReset \/ TStepOK \/ TStepBad \/ TSkip)

TSpec == TInit /\ [][TNext]_tvars

TInv == rej \/ (TypeOK /\ PrefixL /\ PrefixR /\ NothingHeldBack /\ EndsWithInput)
TProps == [][rej \/ rej' \/ R.a = "Reset" \/
             ( /\ done => (done' /\ out' = out)
               /\ IsPrefix(out, out') /\ Len(out') <= Len(out) + 1 )]_tvars

Done == l = Len(Rec) + 1 => PrintT(<<"TRACE_END", ToJson(bad)>>)
Post == PrintT(<<"TRACE_DONE", TLCGet("stats").diameter, Len(Rec)>>)
=============================================================================
