//! C05 — local L2 order book conformance driver (spec/OrderBook.tla).
//!
//! `c05 run    --scenarios f.ndjson --results r.ndjson --trace t.ndjson --mode direct|manager --seed S`
//!     replays TLC-generated behaviours `{init, steps:[{ev, exp}]}` into the real book.  Every event
//!     is built with `OrderBook::new` (the constructor the connectors use) and applied with
//!     `OrderBook::update` (mode direct) or pushed through the real `OrderBookL2Manager::run` over a
//!     channel and read from the shared book (mode manager).  After every event the projected book
//!     (levels, sequence, mid_price, volume_weighed_mid_price, snapshot(d) for d in {0,1,2,large})
//!     is compared with the set of books the specification allows (`exp`, Pattern B) and logged
//!     as one NDJSON trace line in integer spec units (Pattern A, oracle Trace_OrderBook.tla).
//!     Prices and amounts are `spec value * 10^e`, `e` drawn per scenario (scale equivariance).
//! `c05 random --seed S --steps N --trace t.ndjson --mode direct|manager`
//!     seeded random driver over 16 prices: front / middle / back inserts, deletes of absent
//!     levels, several entries for one price, unsorted lists, snapshots.
use barter_data::{
    books::{
        Level, OrderBook,
        manager::OrderBookL2Manager,
        map::{OrderBookMap, OrderBookMapMulti, OrderBookMapSingle},
    },
    event::MarketEvent,
    streams::{consumer::MarketStreamEvent, reconnect::Event},
    subscription::book::OrderBookEvent,
};
use barter_instrument::exchange::ExchangeId;
use fnv::FnvHashMap;
use futures::Stream;
use parking_lot::RwLock;
use rand::{Rng, prelude::IndexedRandom, seq::SliceRandom};
use rust_decimal::Decimal;
use serde_json::{Value, json};
use std::{
    pin::Pin,
    sync::{
        Arc,
        atomic::{AtomicUsize, Ordering},
    },
    task::{Context, Poll},
};
use tokio::sync::mpsc;
use vh::{cmp::json_match, util::*};

const LARGE: usize = 99;

fn pow10(e: i32) -> Decimal {
    if e >= 0 { Decimal::from(10i64.pow(e as u32)) } else { Decimal::new(1, (-e) as u32) }
}

/// spec units <-> implementation decimals
#[derive(Clone, Copy)]
struct Scale {
    ep: i32,
    ea: i32,
}

impl Scale {
    const UNIT: Scale = Scale { ep: 0, ea: 0 };
    fn level(&self, lv: &Value) -> Level {
        Level { price: dec(i(lv, "p")) * pow10(self.ep), amount: dec(i(lv, "a")) * pow10(self.ea) }
    }
    fn price_out(&self, d: Decimal) -> Decimal {
        d * pow10(-self.ep)
    }
    fn amount_out(&self, d: Decimal) -> Decimal {
        d * pow10(-self.ea)
    }
}

fn levels_of(list: &Value, sc: Scale) -> Vec<Level> {
    list.as_array().unwrap_or_else(|| usage("level list expected")).iter().map(|l| sc.level(l)).collect()
}

/// Build the event exactly as a connector does: `OrderBook::new(sequence, time_engine, bids, asks)`.
fn event_of(kind: &str, bl: &Value, al: &Value, s: i64, sc: Scale) -> OrderBookEvent {
    let book = OrderBook::new(s as u64, None, levels_of(bl, sc), levels_of(al, sc));
    match kind {
        "Snapshot" | "Reset" => OrderBookEvent::Snapshot(book),
        "Update" => OrderBookEvent::Update(book),
        k => usage(&format!("bad event kind {k}")),
    }
}

// ---------------------------------------------------------------------------------------------
// projection: the only place where implementation state becomes spec state
// ---------------------------------------------------------------------------------------------
fn vec_json(levels: &[Level], sc: Scale, ints: bool) -> Value {
    Value::Array(
        levels
            .iter()
            .map(|l| {
                let (p, a) = (sc.price_out(l.price), sc.amount_out(l.amount));
                if ints { json!({"p": dec_json(p), "a": dec_json(a)}) } else { json!({"p": p.to_string(), "a": a.to_string()}) }
            })
            .collect(),
    )
}

fn side_json(b: &OrderBook, sc: Scale, ints: bool) -> Value {
    json!({"bids": vec_json(b.bids().levels(), sc, ints), "asks": vec_json(b.asks().levels(), sc, ints), "seq": b.sequence})
}

/// Pattern B projection (exact decimals as strings, compared in Rust against TLC's fractions).
/// A panic of an accessor (e.g. a division by zero in the volume weighted mid) is data.
fn project(b: &OrderBook, sc: Scale) -> Value {
    catch(|| project_inner(b, sc)).unwrap_or_else(|p| json!({"panic": format!("accessor panicked: {p}")}))
}

fn project_inner(b: &OrderBook, sc: Scale) -> Value {
    let opt = |d: Option<Decimal>| d.map(|x| Value::from(sc.price_out(x).to_string())).unwrap_or(Value::from("none"));
    let mut v = side_json(b, sc, false);
    let o = v.as_object_mut().unwrap();
    o.insert("mid".into(), opt(b.mid_price()));
    o.insert("vw".into(), opt(b.volume_weighed_mid_price()));
    for (k, d) in [("d0", 0), ("d1", 1), ("d2", 2), ("dL", LARGE)] {
        o.insert(k.into(), side_json(&b.snapshot(d), sc, false));
    }
    v
}

/// Pattern A projection (integers in spec units; mid2 = 2*mid, vwm = floor(1000*vwmid), -1 = None).
fn project_trace(b: &OrderBook, sc: Scale) -> Value {
    catch(|| project_trace_inner(b, sc)).unwrap_or_else(|p| json!({"panic": format!("accessor panicked: {p}")}))
}

fn project_trace_inner(b: &OrderBook, sc: Scale) -> Value {
    let mut v = side_json(b, sc, true);
    let o = v.as_object_mut().unwrap();
    o.insert("mid2".into(), b.mid_price().map(|m| dec_json(sc.price_out(m) * dec(2))).unwrap_or(Value::from(-1)));
    o.insert(
        "vwm".into(),
        b.volume_weighed_mid_price().map(|m| dec_json((sc.price_out(m) * dec(1000)).floor())).unwrap_or(Value::from(-1)),
    );
    for (k, d) in [("d0", 0), ("d1", 1), ("d2", 2), ("dL", LARGE)] {
        o.insert(k.into(), side_json(&b.snapshot(d), sc, true));
    }
    v
}

// ---------------------------------------------------------------------------------------------
// the system under test: the book directly, or behind the real manager task
// ---------------------------------------------------------------------------------------------
type Key = u64;
const OURS: Key = 0;
const OTHER: Key = 1;
const UNKNOWN: Key = 9;

/// Input stream of the manager: an mpsc receiver that records how many delivered items the
/// manager has finished with (it polls for the next item only after applying the previous one).
struct Gate {
    rx: mpsc::UnboundedReceiver<MarketStreamEvent<Key, OrderBookEvent>>,
    delivered: usize,
    acked: Arc<AtomicUsize>,
}

impl Stream for Gate {
    type Item = MarketStreamEvent<Key, OrderBookEvent>;
    fn poll_next(mut self: Pin<&mut Self>, cx: &mut Context<'_>) -> Poll<Option<Self::Item>> {
        self.acked.store(self.delivered, Ordering::SeqCst);
        let r = self.rx.poll_recv(cx);
        if let Poll::Ready(Some(_)) = &r {
            self.delivered += 1;
        }
        r
    }
}

enum Sut {
    Direct(OrderBook),
    Manager {
        tx: mpsc::UnboundedSender<MarketStreamEvent<Key, OrderBookEvent>>,
        sent: usize,
        acked: Arc<AtomicUsize>,
        /// the shared books handed to the manager's map: ours, and (flavour multi) the other configured one
        ours: Arc<RwLock<OrderBook>>,
        other: Option<Arc<RwLock<OrderBook>>>,
        /// what the other configured book must be: its own events applied directly, nothing else
        other_ref: OrderBook,
        /// the manager runs on its own thread (own runtime), so that the harness can hold a read lock
        /// on a book while the manager wants to write it
        task: std::thread::JoinHandle<()>,
    },
}

/// how long a harness reader keeps its read guard while the manager is due to apply an event
const READER_HOLD: std::time::Duration = std::time::Duration::from_millis(4);
/// wall-clock bound on waiting for the manager: exceeding it is a TOOL error, never a verdict
const MANAGER_PATIENCE: std::time::Duration = std::time::Duration::from_secs(60);

fn market_event(key: Key, kind: OrderBookEvent) -> MarketStreamEvent<Key, OrderBookEvent> {
    Event::Item(MarketEvent { time_exchange: time(0), time_received: time(0), exchange: ExchangeId::BinanceSpot, instrument: key, kind })
}

fn spawn_manager<M>(map: M, gate: Gate) -> std::thread::JoinHandle<()>
where
    M: OrderBookMap<Key = Key> + Send + 'static,
{
    let manager = OrderBookL2Manager { stream: gate, books: map };
    std::thread::spawn(move || {
        let rt = tokio::runtime::Builder::new_current_thread().enable_all().build().expect("manager runtime");
        rt.block_on(manager.run());
    })
}

impl Sut {
    /// `flavour` (manager mode): "single" = OrderBookMapSingle over OURS (OTHER and UNKNOWN are not configured),
    /// "multi" = OrderBookMapMulti over OURS and OTHER (UNKNOWN is not configured)
    fn new(mode: &str, flavour: &str) -> Sut {
        match mode {
            "direct" => Sut::Direct(OrderBook::default()),
            "manager" => {
                let (tx, rx) = mpsc::unbounded_channel();
                let acked = Arc::new(AtomicUsize::new(0));
                let gate = Gate { rx, delivered: 0, acked: acked.clone() };
                let ours = Arc::new(RwLock::new(OrderBook::default()));
                let (other, task) = match flavour {
                    "single" => (None, spawn_manager(OrderBookMapSingle::new(OURS, ours.clone()), gate)),
                    "multi" => {
                        let other = Arc::new(RwLock::new(OrderBook::default()));
                        let mut map = FnvHashMap::default();
                        map.insert(OURS, ours.clone());
                        map.insert(OTHER, other.clone());
                        (Some(other), spawn_manager(OrderBookMapMulti::new(map), gate))
                    }
                    f => usage(&format!("bad map flavour {f}")),
                };
                Sut::Manager { tx, sent: 0, acked, ours, other, other_ref: OrderBook::default(), task }
            }
            m => usage(&format!("bad mode {m}")),
        }
    }

    /// the other configured book (flavour multi) follows exactly its own events
    fn other_diverged(&self) -> Option<String> {
        match self {
            Sut::Manager { other: Some(other), other_ref, .. } => {
                let held = other.read().clone();
                (held != *other_ref).then(|| format!("the book of the other configured instrument is {held:?}, its own events give {other_ref:?}"))
            }
            _ => None,
        }
    }

    /// Err(description) if the code under test panicked.
    async fn push(&mut self, item: MarketStreamEvent<Key, OrderBookEvent>) -> Result<(), String> {
        self.push_with(item, false)
    }

    /// As `push`, but (manager mode) a consumer of the shared map holds a READ lock on our book while
    /// the manager receives the event, and releases it a moment later without waiting for the manager.
    /// Returns whether the manager had already finished with the event while the lock was still held.
    fn push_read(&mut self, item: MarketStreamEvent<Key, OrderBookEvent>) -> Result<(), String> {
        self.push_with(item, true)
    }

    fn push_with(&mut self, item: MarketStreamEvent<Key, OrderBookEvent>, reader: bool) -> Result<(), String> {
        match self {
            Sut::Direct(book) => match item {
                Event::Item(ev) if ev.instrument == OURS => catch(|| book.update(ev.kind)),
                _ => Ok(()),
            },
            Sut::Manager { tx, sent, acked, task, ours, other, other_ref } => {
                if let (Some(_), Event::Item(ev)) = (&other, &item) {
                    if ev.instrument == OTHER {
                        other_ref.update(ev.kind.clone());
                    }
                }
                let shared = ours.clone();
                let guard = reader.then(|| shared.read());
                tx.send(item).map_err(|_| "manager task ended (input channel closed)".to_string())?;
                *sent += 1;
                if let Some(guard) = guard {
                    // keep reading for a moment: a blocking writer waits (nothing is acknowledged); the
                    // reader never waits for the manager, so this cannot deadlock
                    let t0 = std::time::Instant::now();
                    while t0.elapsed() < READER_HOLD && acked.load(Ordering::SeqCst) < *sent {
                        std::thread::yield_now();
                    }
                    drop(guard);
                }
                let t0 = std::time::Instant::now();
                let mut spins = 0u32;
                while acked.load(Ordering::SeqCst) < *sent {
                    if task.is_finished() {
                        return Err("OrderBookL2Manager::run ended or panicked while applying the event".into());
                    }
                    spins += 1;
                    if spins < 200 {
                        std::hint::spin_loop();
                    } else {
                        std::thread::yield_now();
                    }
                    if spins % 4096 == 0 && t0.elapsed() > MANAGER_PATIENCE {
                        usage("tool error: OrderBookL2Manager::run did not consume an event within 60 s");
                    }
                }
                Ok(())
            }
        }
    }

    fn book(&self, key: Key) -> OrderBook {
        match self {
            Sut::Direct(b) => b.clone(),
            Sut::Manager { ours, other, .. } => {
                if key == OURS { ours.read().clone() } else { other.as_ref().expect("configured book").read().clone() }
            }
        }
    }
}

/// What is logged after a push: the projected book of OURS - unless the call panicked, or the other
/// configured book no longer is what its own events make it.
fn observe(sut: &Sut, sc: Scale, r: &Result<(), String>) -> Value {
    match (r, sut.other_diverged()) {
        (Err(p), _) => json!({"panic": p}),
        (Ok(()), Some(d)) => json!({"anomaly": d}),
        (Ok(()), None) => project_trace(&sut.book(OURS), sc),
    }
}

/// Manager-level inputs that carry nothing for our book: reconnect notices and L2 events addressed to
/// another instrument (configured or not). Logged with the event and its addressee (`inst`); the
/// specification allows only ManagerSkip for them.
async fn noise<R: Rng>(sut: &mut Sut, rng: &mut R, trace: &mut Out, counts: &mut Counts, sc: Scale) -> Result<(), String> {
    if !matches!(sut, Sut::Manager { .. }) {
        return Ok(());
    }
    while rng.random_range(0..3) == 0 {
        // a foreign event that would visibly change our book: levels over the same prices, own sequence
        let snapshot = rng.random_bool(0.5);
        let kind = if snapshot { "Snapshot" } else { "Update" };
        let low = if snapshot { 1 } else { 0 }; // (snapshots carry positive amounts)
        let bl = json!([{"p": rng.random_range(1..7), "a": rng.random_range(low..4)}]);
        let al = json!([{"p": rng.random_range(1..7), "a": rng.random_range(low..4)}]);
        let sq = rng.random_range(0..50);
        let (a, inst, item) = match rng.random_range(0..3) {
            0 => ("Noop", "none", Event::Reconnecting(ExchangeId::BinanceSpot)),
            1 => (kind, "other", market_event(OTHER, event_of(kind, &bl, &al, sq, sc))),
            _ => (kind, "unknown", market_event(UNKNOWN, event_of(kind, &bl, &al, sq, sc))),
        };
        let r = sut.push(item).await;
        let post = observe(sut, sc, &r);
        trace.line(&json!({"a": a, "inst": inst, "bl": if a == "Noop" { json!([]) } else { bl }, "al": if a == "Noop" { json!([]) } else { al },
                           "s": if a == "Noop" { 0 } else { sq }, "post": post}));
        counts.noop += 1;
        match inst {
            "other" => counts.foreign_configured_or_single += 1,
            "unknown" => counts.foreign_unknown += 1,
            _ => {}
        }
        r?;
    }
    Ok(())
}

#[derive(Default)]
struct Counts {
    snapshot: usize,
    update: usize,
    noop: usize,
    dup_price: usize,
    absent_delete: usize,
    insert_front: usize,
    insert_middle: usize,
    insert_back: usize,
    replace: usize,
    remove: usize,
    alt_taken: usize,
    reader_held: usize,
    foreign_configured_or_single: usize,
    foreign_unknown: usize,
    single_map_runs: usize,
    multi_map_runs: usize,
}

fn classify(pre: &OrderBook, bl: &Value, al: &Value, sc: Scale, c: &mut Counts) {
    for (list, levels, bids) in [(bl, pre.bids().levels(), true), (al, pre.asks().levels(), false)] {
        let lv = levels_of(list, sc);
        for (n, l) in lv.iter().enumerate() {
            if lv.iter().skip(n + 1).any(|o| o.price == l.price) {
                c.dup_price += 1;
            }
            let pos = levels.iter().position(|e| e.price == l.price);
            match (pos, l.amount.is_zero()) {
                (Some(_), true) => c.remove += 1,
                (Some(_), false) => c.replace += 1,
                (None, true) => c.absent_delete += 1,
                (None, false) => {
                    let better = levels.iter().filter(|e| if bids { e.price > l.price } else { e.price < l.price }).count();
                    if better == 0 {
                        c.insert_front += 1
                    } else if better == levels.len() {
                        c.insert_back += 1
                    } else {
                        c.insert_middle += 1
                    }
                }
            }
        }
    }
}

fn ev_line(a: &str, bl: &Value, al: &Value, s: i64, post: Value) -> Value {
    json!({"a": a, "inst": if a == "Noop" { "none" } else { "own" }, "bl": bl, "al": al, "s": s, "post": post})
}

// ---------------------------------------------------------------------------------------------
// run: TLC scenarios
// ---------------------------------------------------------------------------------------------
async fn run(args: &Args) {
    let scns = read_ndjson(args.req("scenarios"));
    let mode = args.str("mode", "direct");
    let mut results = Out::create(args.req("results"));
    let mut trace = Out::create(args.req("trace"));
    let mut rng = rng(args.u64("seed", 1));
    let mut counts = Counts::default();
    // reader-held events cost READER_HOLD each on the unchanged tree: a bounded number per run
    let (mut reader_budget, reader_every) = (args.usize("readers", 400), args.usize("reader-every", 12).max(1));
    let (mut failed, mut steps) = (0usize, 0usize);
    for (n, scn) in scns.iter().enumerate() {
        let sc = Scale {
            ep: *[0, 0, -2, -8, 3].choose(&mut rng).unwrap(),
            ea: *[0, 0, -3, -8, 2].choose(&mut rng).unwrap(),
        };
        // manager mode: scenarios alternate between the two map flavours (a replay may fix it)
        let flavour = scn.get("map").and_then(|m| m.as_str()).map(|m| m.to_string()).unwrap_or_else(|| args.str("map", if n % 2 == 0 { "single" } else { "multi" }));
        if mode == "manager" {
            if flavour == "single" { counts.single_map_runs += 1 } else { counts.multi_map_runs += 1 }
        }
        let mut sut = Sut::new(&mode, &flavour);
        let mut verdict = json!({"scn": n, "ok": true});
        // the initial book is installed by a snapshot event with its levels in random order
        let init = &scn["init"];
        let shuffled = |v: &Value, rng: &mut rand::rngs::StdRng| {
            let mut a = v.as_array().cloned().unwrap_or_default();
            a.shuffle(rng);
            Value::Array(a)
        };
        let (ib, ia) = (shuffled(&init["bids"], &mut rng), shuffled(&init["asks"], &mut rng));
        let s0 = i(init, "seq");
        let r = sut.push(market_event(OURS, event_of("Reset", &ib, &ia, s0, sc))).await;
        let mut dead = r.is_err();
        let mut reset = ev_line("Reset", &ib, &ia, s0, match r {
            Ok(()) => project_trace(&sut.book(OURS), sc),
            Err(p) => json!({"panic": p}),
        });
        reset["map"] = json!(flavour);
        trace.line(&reset);
        // (replays reconstructed from traces carry only the levels of the initial book)
        if !dead && init.get("mid").is_some() {
            if let Err(e) = json_match(init, &project(&sut.book(OURS), sc), "init") {
                verdict = json!({"scn": n, "ok": false, "step": 0, "error": e, "event": {"k": "Reset"}, "pre": "empty"});
                dead = true;
            }
        }
        for (k, step) in scn["steps"].as_array().unwrap_or_else(|| usage("steps")).iter().enumerate() {
            if dead {
                break;
            }
            let ev = &step["ev"];
            let (kind, bl, al, s) = (s(ev, "k"), &ev["b"], &ev["a"], i(ev, "s"));
            if let Err(p) = noise(&mut sut, &mut rng, &mut trace, &mut counts, sc).await {
                verdict = json!({"scn": n, "ok": false, "step": k + 1, "error": format!("panic: {p}"), "event": "noise", "pre": "?"});
                break;
            }
            let pre = sut.book(OURS);
            match kind {
                "Update" => {
                    classify(&pre, bl, al, sc, &mut counts);
                    counts.update += 1;
                }
                "Noop" => counts.noop += 1,
                _ => counts.snapshot += 1,
            }
            steps += 1;
            // a spec "Noop" (ManagerSkip) is a reconnect notice / an event for an unknown instrument
            let item = match kind {
                "Noop" if k % 2 == 0 => Event::Reconnecting(ExchangeId::BinanceSpot),
                "Noop" => market_event(UNKNOWN, event_of("Update", &json!([{"p": 1, "a": 1}]), &json!([]), 3, sc)),
                _ => market_event(OURS, event_of(kind, bl, al, s, sc)),
            };
            // now and then a consumer of the shared map is reading our book when the event arrives
            let with_reader = kind != "Noop" && reader_budget > 0 && matches!(sut, Sut::Manager { .. }) && rng.random_range(0..reader_every) == 0;
            let r = if with_reader {
                reader_budget -= 1;
                counts.reader_held += 1;
                sut.push_read(item)
            } else {
                sut.push(item).await
            };
            if let Err(p) = r {
                trace.line(&ev_line(kind, bl, al, s, json!({"panic": p})));
                verdict = json!({"scn": n, "ok": false, "step": k + 1, "error": format!("panic: {p}"), "event": ev, "pre": project(&pre, sc)});
                break;
            }
            let now = sut.book(OURS);
            trace.line(&ev_line(kind, bl, al, s, observe(&sut, sc, &Ok(()))));
            if let Some(exp) = step.get("exp") {
                let alts = exp.as_array().cloned().unwrap_or_default();
                if alts.len() > 1 {
                    counts.alt_taken += 1;
                }
                if let Err(e) = json_match(&json!({"anyOf": alts}), &project(&now, sc), "book") {
                    verdict = json!({"scn": n, "ok": false, "step": k + 1, "error": e, "event": ev, "pre": project(&pre, sc), "scale": [sc.ep, sc.ea]});
                    break;
                }
            }
        }
        if verdict["ok"] == json!(false) {
            failed += 1;
        }
        results.line(&verdict);
        if let Sut::Manager { tx, task, .. } = sut {
            drop(tx);
            let _ = task.join();
        }
    }
    results.finish();
    let lines = trace.finish();
    println!("{}", summary(&mode, scns.len(), steps, failed, lines, &counts));
}

fn summary(mode: &str, scenarios: usize, steps: usize, failed: usize, lines: usize, c: &Counts) -> Value {
    json!({"mode": mode, "scenarios": scenarios, "events": steps, "failed": failed, "trace_lines": lines,
           "arms": {"snapshot": c.snapshot, "update": c.update, "noop": c.noop, "entries_with_duplicate_price": c.dup_price,
                    "delete_absent": c.absent_delete, "insert_front": c.insert_front, "insert_middle": c.insert_middle,
                    "insert_back": c.insert_back, "replace": c.replace, "remove": c.remove,
                    "steps_with_several_allowed_books": c.alt_taken,
                    "events_arriving_while_a_reader_holds_the_book": c.reader_held,
                    "events_of_the_other_instrument": c.foreign_configured_or_single, "events_of_an_unknown_instrument": c.foreign_unknown,
                    "runs_with_OrderBookMapSingle": c.single_map_runs, "runs_with_OrderBookMapMulti": c.multi_map_runs}})
}

// ---------------------------------------------------------------------------------------------
// random: seeded driver over 16 prices
// ---------------------------------------------------------------------------------------------
const NPRICE: i64 = 16;

fn random_level<R: Rng>(rng: &mut R, levels: &[Level], bids: bool) -> Value {
    let held: Vec<i64> = levels.iter().map(|l| i64::try_from(l.price.mantissa()).unwrap_or(1)).collect();
    let absent: Vec<i64> = (1..=NPRICE).filter(|p| !held.contains(p)).collect();
    let pick = |v: &[i64], rng: &mut R| v[rng.random_range(0..v.len())];
    let any = rng.random_range(1..=NPRICE);
    let (p, a) = match rng.random_range(0..10) {
        // delete a held level / replace it
        0 | 1 if !held.is_empty() => (pick(&held, rng), 0),
        2 if !held.is_empty() => (pick(&held, rng), rng.random_range(1..10)),
        // delete an absent level
        3 if !absent.is_empty() => (pick(&absent, rng), 0),
        // insert in front of / behind everything (bids: front = highest price)
        4 | 5 => {
            let front = rng.random_bool(0.5);
            let hi = (front && bids) || (!front && !bids);
            let cand: Vec<i64> = absent
                .iter()
                .copied()
                .filter(|p| if hi { held.iter().all(|h| p > h) } else { held.iter().all(|h| p < h) })
                .collect();
            if cand.is_empty() { (any, rng.random_range(1..10)) } else { (pick(&cand, rng), rng.random_range(1..10)) }
        }
        // insert strictly between two held levels
        6 | 7 => {
            let cand: Vec<i64> = absent.iter().copied().filter(|p| held.iter().any(|h| h < p) && held.iter().any(|h| h > p)).collect();
            if cand.is_empty() { (any, rng.random_range(0..10)) } else { (pick(&cand, rng), rng.random_range(1..10)) }
        }
        _ => (any, rng.random_range(0..10)),
    };
    json!({"p": p, "a": a})
}

fn random_list<R: Rng>(rng: &mut R, levels: &[Level], bids: bool) -> Value {
    let n = [0, 1, 1, 2, 3, 5][rng.random_range(0..6)];
    let mut v: Vec<Value> = (0..n).map(|_| random_level(rng, levels, bids)).collect();
    // duplicate one of the prices with another amount
    if !v.is_empty() && rng.random_range(0..3) == 0 {
        let p = v[rng.random_range(0..v.len())]["p"].clone();
        let at = rng.random_range(0..=v.len());
        v.insert(at, json!({"p": p, "a": rng.random_range(0..10)}));
    }
    // the list as given: unsorted, in the side's natural order, or exactly reversed (repeated prices
    // adjacent in the last two)
    match rng.random_range(0..3) {
        0 => v.shuffle(rng),
        o => {
            v.sort_by_key(|l| l["p"].as_i64().unwrap_or(0));
            if (o == 1) == bids {
                v.reverse();
            }
            // entries of one price keep a random relative order
            let mut j = 0;
            while j < v.len() {
                let mut k = j;
                while k < v.len() && v[k]["p"] == v[j]["p"] {
                    k += 1;
                }
                v[j..k].shuffle(rng);
                j = k;
            }
        }
    }
    Value::Array(v)
}

fn random_clean<R: Rng>(rng: &mut R) -> Value {
    let mut ps: Vec<i64> = (1..=NPRICE).collect();
    ps.shuffle(rng);
    let n = rng.random_range(0..=8usize);
    Value::Array(ps[..n].iter().map(|p| json!({"p": p, "a": rng.random_range(1..10)})).collect())
}

async fn random(args: &Args) {
    let mode = args.str("mode", "direct");
    let steps = args.usize("steps", 1000);
    let mut trace = Out::create(args.req("trace"));
    let mut rng = rng(args.u64("seed", 1));
    let mut counts = Counts::default();
    let (mut reader_budget, reader_every) = (args.usize("readers", 400), 8);
    let sc = Scale::UNIT;
    let (mut done, mut segments, mut panics) = (0usize, 0usize, 0usize);
    while done < steps {
        segments += 1;
        let flavour = args.str("map", if segments % 2 == 0 { "single" } else { "multi" });
        if mode == "manager" {
            if flavour == "single" { counts.single_map_runs += 1 } else { counts.multi_map_runs += 1 }
        }
        let mut sut = Sut::new(&mode, &flavour);
        let (ib, ia) = (random_clean(&mut rng), random_clean(&mut rng));
        let s0 = rng.random_range(0..1000);
        let r = sut.push(market_event(OURS, event_of("Reset", &ib, &ia, s0, sc))).await;
        let mut dead = r.is_err();
        let mut reset = ev_line("Reset", &ib, &ia, s0, match r {
            Ok(()) => project_trace(&sut.book(OURS), sc),
            Err(p) => json!({"panic": p}),
        });
        reset["map"] = json!(flavour);
        trace.line(&reset);
        let len = rng.random_range(20..80);
        for _ in 0..len {
            if dead || done >= steps {
                break;
            }
            done += 1;
            if noise(&mut sut, &mut rng, &mut trace, &mut counts, sc).await.is_err() {
                dead = true;
                break;
            }
            let pre = sut.book(OURS);
            let s = rng.random_range(0..1000);
            let (kind, bl, al) = if rng.random_range(0..15) == 0 {
                counts.snapshot += 1;
                ("Snapshot", random_clean(&mut rng), random_clean(&mut rng))
            } else {
                counts.update += 1;
                let (bl, al) = (random_list(&mut rng, pre.bids().levels(), true), random_list(&mut rng, pre.asks().levels(), false));
                classify(&pre, &bl, &al, sc, &mut counts);
                ("Update", bl, al)
            };
            let with_reader = reader_budget > 0 && matches!(sut, Sut::Manager { .. }) && rng.random_range(0..reader_every) == 0;
            let item = market_event(OURS, event_of(kind, &bl, &al, s, sc));
            let r = if with_reader {
                reader_budget -= 1;
                counts.reader_held += 1;
                sut.push_read(item)
            } else {
                sut.push(item).await
            };
            dead = r.is_err();
            trace.line(&ev_line(kind, &bl, &al, s, observe(&sut, sc, &r)));
        }
        if dead {
            panics += 1;
        }
        if let Sut::Manager { tx, task, .. } = sut {
            drop(tx);
            let _ = task.join();
        }
    }
    let lines = trace.finish();
    let mut s = summary(&mode, segments, done, panics, lines, &counts);
    s["seed"] = json!(args.u64("seed", 1));
    println!("{s}");
}

/// `c05 deep --seed S --trace t.ndjson`: books of more than a thousand levels per side (a venue's full depth) in
/// mode direct: a snapshot of ~1040 levels per side, then updates that insert new prices behind the worst level,
/// between levels and in front of the best one, replace and delete levels - also after the best levels have been
/// traded away. Validated by spec/Trace_OrderBook_deep.tla: however deep the book, it is the price -> amount map.
async fn deep(args: &Args) {
    let mut trace = Out::create(args.req("trace"));
    let mut rng = rng(args.u64("seed", 1));
    let sc = Scale::UNIT;
    let mut lines = 0usize;
    for seg in 0..2 {
        let mut sut = Sut::new("direct", "single");
        // bids 101..=1250, asks 1301..=2450, without the multiples of 10 (kept free for later inserts), shuffled
        let mut ib: Vec<Value> = (101..=1250).filter(|p| p % 10 != 0).map(|p| json!({"p": p, "a": rng.random_range(1..10)})).collect();
        let mut ia: Vec<Value> = (1301..=2450).filter(|p| p % 10 != 0).map(|p| json!({"p": p, "a": rng.random_range(1..10)})).collect();
        ib.shuffle(&mut rng);
        ia.shuffle(&mut rng);
        let (ib, ia) = (Value::Array(ib), Value::Array(ia));
        let r = sut.push(market_event(OURS, event_of("Reset", &ib, &ia, seg, sc))).await;
        let mut dead = r.is_err();
        trace.line(&ev_line("Reset", &ib, &ia, seg, match r { Ok(()) => project_trace(&sut.book(OURS), sc), Err(p) => json!({"panic": p}) }));
        lines += 1;
        for k in 0..12i64 {
            if dead {
                break;
            }
            // new prices: behind the worst level (bids < 101, asks > 2450), between levels (multiples of 10), in front of
            // the best (bids 1251.., asks ..1300); deletes of the current best levels; replacements
            let pre = sut.book(OURS);
            let best_bid = pre.bids().levels().first().map(|l| l.price).unwrap_or_default();
            let best_ask = pre.asks().levels().first().map(|l| l.price).unwrap_or_default();
            let as_i = |d: Decimal| d.to_string().parse::<i64>().unwrap_or(0);
            let bl = json!([
                {"p": 100 - k * 3 - seg, "a": rng.random_range(1..10)},
                {"p": 110 + 10 * rng.random_range(0..100i64), "a": rng.random_range(1..10)},
                {"p": if k % 3 == 0 { 1251 + k } else { as_i(best_bid) }, "a": if k % 3 == 1 { 0 } else { rng.random_range(1..10) }},
            ]);
            let al = json!([
                {"p": 2451 + k * 3 + seg, "a": rng.random_range(1..10)},
                {"p": 1310 + 10 * rng.random_range(0..100i64), "a": rng.random_range(1..10)},
                {"p": if k % 3 == 0 { 1300 - k } else { as_i(best_ask) }, "a": if k % 3 == 1 { 0 } else { rng.random_range(1..10) }},
            ]);
            let s = 100 + k;
            let r = sut.push(market_event(OURS, event_of("Update", &bl, &al, s, sc))).await;
            dead = r.is_err();
            trace.line(&ev_line("Update", &bl, &al, s, observe(&sut, sc, &r)));
            lines += 1;
        }
    }
    trace.finish();
    println!("{}", json!({"mode": "deep", "lines": lines}));
}

#[tokio::main(flavor = "current_thread")]
async fn main() {
    let args = Args::parse();
    match args.cmd.as_str() {
        "run" => run(&args).await,
        "random" => random(&args).await,
        "deep" => deep(&args).await,
        c => usage(&format!("unknown command {c}")),
    }
}
