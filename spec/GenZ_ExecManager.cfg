SPECIFICATION GSpecT
CONSTANTS
  STALL = {}
  LateResponseOK = TRUE
  NoTimeout = FALSE
  STALLOFF = {0}
  REQ = {1, 2}
  T = 0
  ACCEPT = {0, 1}
  DELAY = {0, 1, 50}
  EX = 0
  INST = {0, 1, 2}
  SIDE = {"buy", "sell"}
  PRICE = {11, 12, 13, 14}
  QTY = {2}
  BUNDLE = {"lim", "mkt"}
  NS = {1, 2}
  SHUT = {9000}
INVARIANTS WellFormed PrintScn
CHECK_DEADLOCK FALSE
