SPECIFICATION Spec
CONSTANTS
  Scripts <- ScriptsA2
  Policies <- PolA
  Tabs <- TabsK
  Clients <- ClientsA
  ReqLists <- ReqsA2
  RIns <- RInsAll
  Slack = {0}
  T = 50
INVARIANTS InputOK TypeOK SnapshotFirst Ordered UpdatesInOrderOnce IndexedRight OnlyOwn NoUpdateLostAcrossSnapshot OneNoticePerDrop NoticeNames
  FailedInitSilent Causal TimeOrdered BackoffClosedForm BackoffTimes WaitsClosedForm FirstFailure NoStreamSilent
  ResponsesOnce ResponsesExact NothingOverdue NeverEnds Exhausted
PROPERTIES Quiescent Progress
CHECK_DEADLOCK FALSE
