SPECIFICATION Spec
CONSTANTS
  PRICE = {1, 2, 3}
  AMOUNT = {0, 1, 2}
  SEQS = {1, 2}
  MaxLong = 2
  MaxShort = 0
  MaxSnap = 1
  StableUpTo = 20
INVARIANTS TypeOK Strict DerivedOK
PROPERTIES SeqIsLast SnapshotReplaces UpdatePointwise
VIEW View
CHECK_DEADLOCK FALSE
