//! C09 — freshness conformance driver (spec/Freshness.tla).
//!
//! `c09 run    --scenarios f.ndjson --out trace.ndjson [--via state|engine]`
//! `c09 random --seed S --steps N --out trace.ndjson [--via state|engine]`
//!
//! Items (world2):  bal0 / bal4  balance of asset 0 (btc@binance) / 4 (btc@kraken)
//!                  l1_0 / l1_4  top of book of instrument 0 / 4
//!                  lt_0 / lt_4  last traded price of instrument 0 / 4
//!                  ord_c1 / ord_c2  open-order details of c1 (instrument 0) / c2 (instrument 4)
//!                  bal0 / bal1 / bal3 are balances of ONE exchange (one full snapshot may list them all, a stale one
//!                                   ahead of a fresh one), bal4 of the other
//!                  ord_c3 / ord_c4  ... of c3 (instrument 0 as well) / c4 (instrument 1, same exchange):
//!                                   a full snapshot that lists one of them says nothing about the others
//! A message {item,t,v} becomes a real BalanceSnapshot / OrderSnapshot / full account Snapshot
//! (two account items in one list) / market Trade / OrderBookL1 event, delivered through
//! `EngineState::update_from_account|update_from_market` (via=state) or `Engine::process`
//! (via=engine). After every event the held <<t, v>> of every item is projected.
use barter::{
    EngineEvent,
    engine::{Processor, state::trading::TradingState},
    execution::AccountStreamEvent,
};
use barter_data::{
    books::Level,
    event::{DataKind, MarketEvent},
    streams::consumer::MarketStreamEvent,
    subscription::{book::OrderBookL1, trade::PublicTrade},
};
use barter_execution::{
    AccountEvent, AccountEventKind, AccountSnapshot, InstrumentAccountSnapshot,
    balance::{AssetBalance, Balance},
    order::{
        Order, OrderKey, OrderKind, TimeInForce,
        id::{ClientOrderId, OrderId},
        state::{Open, OrderState},
    },
};
use barter_instrument::{Side, asset::AssetIndex, exchange::ExchangeIndex, instrument::InstrumentIndex};
use barter_integration::snapshot::Snapshot;
use rand::Rng;
use rust_decimal::Decimal;
use serde_json::{Value, json};
use vh::{engine_kit::*, util::*, world2};

const ITEMS: [&str; 12] = ["bal0", "bal1", "bal3", "bal4", "l1_0", "l1_4", "lt_0", "lt_4", "ord_c1", "ord_c2", "ord_c3", "ord_c4"];
const ORDER_QTY: i64 = 100; // reports are partial fills: the order stays tracked (lifecycle is C01's)

fn item_target(item: &str) -> (String, usize) {
    let (k, n) = item.split_once('_').map(|(a, b)| (a.to_string(), b.to_string())).unwrap_or_else(|| (item[..3].to_string(), item[3..].to_string()));
    match k.as_str() {
        "bal" => ("bal".into(), n.parse().unwrap()),
        "l1" | "lt" => (k, n.parse().unwrap()),
        // c1 and c3 on instrument 0, c4 on instrument 1 (same exchange), c2 on instrument 4 (the other exchange)
        "ord" => ("ord".into(), match n.as_str() { "c1" | "c3" => 0, "c4" => 1, _ => 4 }),
        _ => usage("bad item"),
    }
}

fn balance_of(m: &Value) -> AssetBalance<AssetIndex> {
    let (_, a) = item_target(s(m, "item"));
    AssetBalance { asset: AssetIndex(a), balance: Balance::new(dec(i(m, "v")), dec(i(m, "v"))), time_exchange: time(i(m, "t")) }
}

fn order_of(m: &Value) -> Order<ExchangeIndex, InstrumentIndex, OrderState<AssetIndex, InstrumentIndex>> {
    let (_, inst) = item_target(s(m, "item"));
    let cid = s(m, "item").trim_start_matches("ord_");
    Order {
        key: OrderKey { exchange: ExchangeIndex(world2::EX_OF[inst]), instrument: InstrumentIndex(inst), strategy: strategy_id(), cid: ClientOrderId::new(cid) },
        side: Side::Buy,
        price: dec(10),
        quantity: dec(ORDER_QTY),
        kind: OrderKind::Limit,
        time_in_force: TimeInForce::GoodUntilCancelled { post_only: false },
        state: OrderState::active(Open::new(OrderId::new("o1"), time(i(m, "t")), dec(i(m, "v")))),
    }
}

/// Exchange timestamps of this driver carry microseconds (as venues state them) and lie CLOSE together: spec
/// time t is 2020-01-01 00:00:01 + (400 t + 137) us, so consecutive spec times are 400 us apart - less than a
/// millisecond - and times three apart differ by more than one. The projection accepts only exactly such
/// instants: a held timestamp that was rounded, truncated or shifted is not a timestamp any message delivered,
/// and an order decided on whole milliseconds (or seconds) is not the order of the timestamps.
fn time(t: i64) -> chrono::DateTime<chrono::Utc> {
    vh::util::time(1) + chrono::Duration::microseconds(400 * t + 137)
}
fn untime_exact(d: chrono::DateTime<chrono::Utc>) -> Value {
    let t = untime(d);
    if d == time(t) { json!(t) } else { json!(format!("not a delivered instant: {d:?}")) }
}
fn untime(d: chrono::DateTime<chrono::Utc>) -> i64 {
    (d - vh::util::time(1)).num_microseconds().unwrap_or(i64::MIN / 2).div_euclid(400)
}

/// arrival clock: `time_received` follows delivery order (later than any exchange time), as on a live feed
static ARRIVAL: std::sync::atomic::AtomicI64 = std::sync::atomic::AtomicI64::new(1000);

fn market_of(m: &Value) -> MarketEvent<InstrumentIndex, DataKind> {
    let (k, inst) = item_target(s(m, "item"));
    let (t, v) = (i(m, "t"), i(m, "v"));
    let kind = if k == "lt" {
        DataKind::Trade(PublicTrade { id: "m".into(), price: v as f64, amount: 1.0, side: Side::Buy })
    } else {
        // connectors set last_update_time = time_exchange.  The value names the book's shape as well:
        // 6 = bid only, 7 = ask only, 8 = no side at all, anything else = bid v / ask v+1.  A newer
        // one-sided or empty top of book is still the newest top of book.
        let (best_bid, best_ask) = match v {
            6 => (Some(Level::new(dec(6), dec(1))), None),
            7 => (None, Some(Level::new(dec(7), dec(1)))),
            8 => (None, None),
            _ => (Some(Level::new(dec(v), dec(1))), Some(Level::new(dec(v + 1), dec(1)))),
        };
        DataKind::OrderBookL1(OrderBookL1 { last_update_time: time(t), best_bid, best_ask })
    };
    let arrived = ARRIVAL.fetch_add(1, std::sync::atomic::Ordering::Relaxed);
    MarketEvent { time_exchange: time(t), time_received: time(arrived), exchange: world2::EXCHANGES[world2::EX_OF[inst]], instrument: InstrumentIndex(inst), kind }
}

/// One engine event for the message list (all-account lists of length > 1 become one full
/// account snapshot per exchange; everything else is delivered message by message).
fn events_of(ms: &[Value]) -> Vec<(Vec<Value>, EngineEvent<DataKind>)> {
    let is_account = |m: &Value| matches!(item_target(s(m, "item")).0.as_str(), "bal" | "ord");
    let exchange_of = |m: &Value| {
        let (k, n) = item_target(s(m, "item"));
        if k == "bal" { if n < 4 { 0 } else { 1 } } else { world2::EX_OF[n] }
    };
    let account_event = |ex: usize, kind| EngineEvent::Account(AccountStreamEvent::Item(AccountEvent { exchange: ExchangeIndex(ex), kind }));
    if ms.len() > 1 && ms.iter().all(is_account) && ms.iter().all(|m| exchange_of(m) == exchange_of(&ms[0])) {
        // applied by the engine as: balances in order, then instruments in order
        let bals: Vec<&Value> = ms.iter().filter(|m| item_target(s(m, "item")).0 == "bal").collect();
        let ords: Vec<&Value> = ms.iter().filter(|m| item_target(s(m, "item")).0 == "ord").collect();
        let ex = exchange_of(&ms[0]);
        // reports about orders of one instrument are listed in that instrument's group (groups in order of
        // first mention); when the time stamps sum to an odd number the snapshot also lists the exchange's
        // other instruments, without reports - it says nothing about the orders it does not list
        let mut groups: Vec<(usize, Vec<&Value>)> = vec![];
        for m in &ords {
            let inst = item_target(s(m, "item")).1;
            match groups.iter_mut().find(|g| g.0 == inst) {
                Some(g) => g.1.push(m),
                None => groups.push((inst, vec![m])),
            }
        }
        let applied: Vec<Value> = bals.iter().map(|m| (*m).clone()).chain(groups.iter().flat_map(|g| g.1.iter().map(|m| (**m).clone()))).collect();
        if ms.iter().map(|m| i(m, "t")).sum::<i64>() % 2 == 1 {
            for inst in (0..world2::N_INST).filter(|n| world2::EX_OF[*n] == ex) {
                if groups.iter().all(|g| g.0 != inst) {
                    let at = if inst % 2 == 0 { 0 } else { groups.len() };
                    groups.insert(at, (inst, vec![]));
                }
            }
        }
        let snap = AccountSnapshot {
            exchange: ExchangeIndex(ex),
            balances: bals.iter().map(|m| balance_of(m)).collect(),
            instruments: groups.iter().map(|(inst, os)| InstrumentAccountSnapshot { instrument: InstrumentIndex(*inst), orders: os.iter().map(|m| order_of(m)).collect() }).collect(),
        };
        return vec![(applied, account_event(ex, AccountEventKind::Snapshot(snap)))];
    }
    ms.iter().map(|m| {
        let ev = match item_target(s(m, "item")).0.as_str() {
            "bal" => account_event(exchange_of(m), AccountEventKind::BalanceSnapshot(Snapshot(balance_of(m)))),
            "ord" => account_event(exchange_of(m), AccountEventKind::OrderSnapshot(Snapshot(order_of(m)))),
            _ => EngineEvent::Market(MarketStreamEvent::Item(market_of(m))),
        };
        (vec![m.clone()], ev)
    }).collect()
}

fn int_or_str(d: Decimal) -> Value {
    dec_json(d)
}

fn project(st: &world2::State) -> Value {
    let none = || json!({"has": false, "t": 0, "v": 0});
    let mut m = serde_json::Map::new();
    for item in ITEMS {
        let (k, n) = item_target(item);
        let v = match k.as_str() {
            "bal" => match &st.assets.asset_index(&AssetIndex(n)).balance {
                None => none(),
                // total and free are delivered equal: a held pair that is not one delivered value shows as a string
                Some(b) => json!({"has": true, "t": untime_exact(b.time), "v": if b.value.total == b.value.free { int_or_str(b.value.total) } else { json!("torn") }}),
            },
            "l1" => {
                let l1 = &st.instruments.instrument_index(&InstrumentIndex(n)).data.l1;
                let shaped = |v: Value| json!({"has": true, "t": untime_exact(l1.last_update_time), "v": v});
                let special = |p: Decimal| [dec(6), dec(7), dec(8)].contains(&p);
                match (&l1.best_bid, &l1.best_ask) {
                    // the default top of book carries the epoch; delivered ones carry a positive time
                    (None, None) if untime(l1.last_update_time) <= 0 => none(),
                    (None, None) => shaped(json!(8)),
                    (Some(bid), None) => shaped(if bid.price == dec(6) { json!(6) } else { json!("torn") }),
                    (None, Some(ask)) => shaped(if ask.price == dec(7) { json!(7) } else { json!("torn") }),
                    (Some(bid), Some(ask)) => shaped(if ask.price == bid.price + Decimal::ONE && !special(bid.price) { int_or_str(bid.price) } else { json!("torn") }),
                }
            }
            "lt" => match &st.instruments.instrument_index(&InstrumentIndex(n)).data.last_traded_price {
                None => none(),
                Some(p) => json!({"has": true, "t": untime_exact(p.time), "v": int_or_str(p.value)}),
            },
            _ => {
                let cid = ClientOrderId::new(item.trim_start_matches("ord_"));
                match st.instruments.instrument_index(&InstrumentIndex(n)).orders.0.get(&cid).and_then(|o| o.state.open_meta()) {
                    None => none(),
                    Some(o) => json!({"has": true, "t": untime_exact(o.time_exchange), "v": int_or_str(o.filled_quantity)}),
                }
            }
        };
        m.insert(item.to_string(), v);
    }
    Value::Object(m)
}

fn cancel_request(item: &str) -> barter_execution::order::request::OrderRequestCancel {
    let (_, inst) = item_target(item);
    barter_execution::order::request::OrderRequestCancel {
        key: OrderKey { exchange: ExchangeIndex(world2::EX_OF[inst]), instrument: InstrumentIndex(inst), strategy: strategy_id(), cid: ClientOrderId::new(item.trim_start_matches("ord_")) },
        state: barter_execution::order::request::RequestCancel { id: None },
    }
}

struct D {
    kit: Kit,
    out: Out,
    via_engine: bool,
}

impl D {
    fn reset(&mut self) {
        self.kit = Kit::new(TradingState::Disabled);
        self.out.line(&json!({"a": "Reset", "post": project(&self.kit.engine.state)}));
    }
    /// the engine records a cancel request for an order item (in-flight bookkeeping, not a report)
    fn touch(&mut self, item: &str) {
        use barter::engine::state::order::in_flight_recorder::InFlightRequestRecorder;
        let req = cancel_request(item);
        let st = &mut self.kit.engine.state;
        let r = catch(|| st.record_in_flight_cancel(&req));
        let line = match r {
            Ok(()) => json!({"a": "Touch", "item": item, "post": project(&self.kit.engine.state)}),
            Err(p) => json!({"a": "Touch", "item": item, "anomaly": format!("panic: {p}")}),
        };
        self.out.line(&line);
    }
    /// a disconnect notice of the link the item arrives on (market data for l1 / lt items, the account stream for
    /// balances and orders): through the engine's own entry point, or - on the bare state - the connectivity update
    /// the engine performs for it
    fn notice(&mut self, item: &str) {
        let (k, n) = item_target(item);
        let market = k == "l1" || k == "lt";
        let ex = world2::EXCHANGES[if k == "bal" { if n < 4 { 0 } else { 1 } } else { world2::EX_OF[n] }];
        let via = self.via_engine;
        let engine = &mut self.kit.engine;
        let r = catch(|| {
            if via {
                let _ = engine.process(if market { EngineEvent::Market(MarketStreamEvent::Reconnecting(ex)) } else { EngineEvent::Account(AccountStreamEvent::Reconnecting(ex)) });
            } else if market {
                engine.state.connectivity.update_from_market_reconnecting(&ex);
            } else {
                engine.state.connectivity.update_from_account_reconnecting(&ex);
            }
        });
        let line = match r {
            Ok(()) => json!({"a": "Notice", "item": item, "post": project(&self.kit.engine.state)}),
            Err(p) => json!({"a": "Notice", "item": item, "anomaly": format!("panic: {p}")}),
        };
        self.out.line(&line);
    }
    /// store and restore what can be stored as JSON (the instrument states: top of book, last trade,
    /// orders; the asset states are keyed by a struct and have no JSON form)
    fn persist(&mut self) {
        let st = &mut self.kit.engine.state;
        let r = catch(|| -> Result<(), String> {
            let text = serde_json::to_string(&st.instruments).map_err(|e| format!("serialise: {e}"))?;
            st.instruments = serde_json::from_str(&text).map_err(|e| format!("deserialise: {e}"))?;
            Ok(())
        });
        let line = match r {
            Ok(Ok(())) => json!({"a": "Persist", "post": project(&self.kit.engine.state)}),
            Ok(Err(e)) => json!({"a": "Persist", "anomaly": e}),
            Err(p) => json!({"a": "Persist", "anomaly": format!("panic: {p}")}),
        };
        self.out.line(&line);
    }
    fn deliver(&mut self, ms: &[Value]) {
        for (applied, ev) in events_of(ms) {
            let via = self.via_engine;
            let engine = &mut self.kit.engine;
            let r = catch(|| {
                if via {
                    let _ = engine.process(ev);
                } else {
                    match &ev {
                        EngineEvent::Account(AccountStreamEvent::Item(a)) => { let _ = engine.state.update_from_account(a); }
                        EngineEvent::Market(MarketStreamEvent::Item(m)) => engine.state.update_from_market(m),
                        _ => unreachable!(),
                    }
                }
            });
            let line = match r {
                Ok(()) => json!({"a": "Deliver", "ms": applied, "post": project(&self.kit.engine.state)}),
                Err(p) => json!({"a": "Deliver", "ms": applied, "anomaly": format!("panic: {p}")}),
            };
            self.out.line(&line);
        }
    }
}

fn main() {
    let args = Args::parse();
    let mut d = D { kit: Kit::new(TradingState::Disabled), out: Out::create(args.req("out")), via_engine: args.str("via", "state") == "engine" };
    let mut steps = 0usize;
    match args.cmd.as_str() {
        "run" => {
            for scn in read_ndjson(args.req("scenarios")) {
                d.reset();
                let explicit = scn.get("explicit").and_then(Value::as_bool).unwrap_or(false);
                for ms in scn["steps"].as_array().expect("steps") {
                    let ms = ms.as_array().expect("message list");
                    if ms.len() == 1 && i(&ms[0], "t") == -2 {
                        d.persist();
                        continue;
                    }
                    // a message with t = -3 is the spec's Notice (the item's link reports that it is reconnecting)
                    if ms.len() == 1 && i(&ms[0], "t") == -3 {
                        d.notice(s(&ms[0], "item"));
                        steps += 1;
                        continue;
                    }
                    // a message with t = -1 is the spec's Touch (cancel request recorded); only orders have one
                    if ms.len() == 1 && i(&ms[0], "t") == -1 {
                        if s(&ms[0], "item").starts_with("ord_") {
                            d.touch(s(&ms[0], "item"));
                        }
                    } else {
                        d.deliver(ms);
                    }
                    steps += 1;
                    if !explicit && steps % 6 == 5 {
                        d.persist();
                    }
                }
            }
        }
        "random" => {
            let mut rng = rng(args.u64("seed", 1));
            let n = args.usize("steps", 4000);
            let tmax = args.u64("tmax", 6) as i64;
            while steps < n {
                if steps % 50 == 0 {
                    d.reset();
                }
                if rng.random_range(0..8) == 0 {
                    d.touch(["ord_c1", "ord_c2", "ord_c3", "ord_c4"][rng.random_range(0..4)]);
                    steps += 1;
                    continue;
                }
                if rng.random_range(0..10) == 0 {
                    d.notice(ITEMS[rng.random_range(0..ITEMS.len())]);
                    steps += 1;
                    continue;
                }
                let msg = |rng: &mut rand::rngs::StdRng| json!({"item": ITEMS[rng.random_range(0..ITEMS.len())], "t": rng.random_range(1..=tmax), "v": rng.random_range(1..=9)});
                let mut ms = vec![msg(&mut rng)];
                if rng.random_range(0..4) == 0 {
                    let m2 = msg(&mut rng);
                    if m2["item"] != ms[0]["item"] {
                        ms.push(m2);
                    }
                    if rng.random_range(0..3) == 0 {
                        let m3 = msg(&mut rng);
                        if ms.iter().all(|m| m["item"] != m3["item"]) {
                            ms.push(m3);
                        }
                    }
                }
                d.deliver(&ms);
                steps += 1;
                if rng.random_range(0..20) == 0 {
                    d.persist();
                }
            }
        }
        c => usage(&format!("unknown command {c}")),
    }
    let n = d.out.finish();
    println!("{}", json!({"lines": n, "steps": steps}));
}
