SPECIFICATION TSpec
CONSTANTS
  EXCH = {"binance_spot", "kraken"}
  NMarket = 8
  CMDS = {"c1", "c2", "c3", "c4"}
  MaxAcct = 100000
  MaxTakes = 100000
  FEEDMODES = {"stream", "iter"}
  AUDITMODES = {"on", "off"}
  STOPS = {"shutdown", "abort", "backtest"}
  EarlyShutdown = FALSE
INVARIANT Done
POSTCONDITION Post
CHECK_DEADLOCK FALSE
