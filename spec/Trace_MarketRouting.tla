------------------------- MODULE Trace_MarketRouting -------------------------
(* Trace validation (impl -> spec) for C13: every line recorded by the       *)
(* harness from the real mapper / validator / transformer must be a step     *)
(* MarketRouting allows.                                                     *)
(*   {"a":"Reset",..}        start of a scenario: nothing is connected       *)
(*   {"a":"Subscribe","c":route,"S":[markets],"off":n,..,"out":[]}           *)
(*   {"a":"Message","c":route,"m":market,"fs":[items],"buf":bool,            *)
(*    "out":[ev|unid,..]}    buf: replayed through process_buffered_events  *)
(*   {"a":"Disconnect","c":route,..,"out":[]}                                *)
(* `out` is the projection of what Transformer::transform returned.  A line  *)
(* that is not a step of the spec is recorded in `bad` (one pass reports     *)
(* every rejected line); the logged outcome is adopted and validation goes   *)
(* on.  ("fl", the instrument flavour, is carried for reporting only.)       *)
EXTENDS MarketRouting, Json, IOUtils

Rec == ndJsonDeserialize(IOEnv.TRACE)

VARIABLES l, bad
tvars == <<conn, subs, out, last, l, bad>>

ToSet(s) == {s[i] : i \in DOMAIN s}
EvOf(r) == Step(r.a, r.c, ToSet(r.S), r.off, r.d, r.dk, r.m, r.fs, r.buf)
ResetStep == Step("Reset", NoConn, {}, 0, 0, 0, 0, <<>>, FALSE)

TInit == /\ l = 1
         /\ bad = <<>>
         /\ Init

TReset == /\ Rec[l].a = "Reset"
          /\ conn' = NoConn /\ subs' = EmptyFn /\ out' = <<>>
          /\ last' = ResetStep
          /\ UNCHANGED bad

\* the same predicate as  Apply(e) /\ out' = o
StepOK(e, o) ==
  CASE e.a = "Subscribe"  -> /\ conn = NoConn /\ e.c \in Conns /\ e.S \subseteq Markets
                             /\ e.off \in KeyOffs /\ o = <<>>
                             /\ e.dk \in DupKinds /\ (IF e.dk = 0 THEN e.d = 0 ELSE e.d \in e.S)
    [] e.a = "Message"    -> /\ conn # NoConn /\ e.c = conn /\ e.m \in Markets
                             /\ \A i \in DOMAIN e.fs : e.fs[i].s \in SidesOf(conn)
                             /\ OutOK(conn, subs, e.m, e.fs, o)
    [] e.a = "Disconnect" -> conn # NoConn /\ e.c = conn /\ o = <<>>
    [] OTHER              -> FALSE

TStepOK == /\ Rec[l].a # "Reset"
           /\ Apply(EvOf(Rec[l]))                      \* the spec's own actions
           /\ out' = Rec[l].out
           /\ UNCHANGED bad

\* a rejected line: keep the connection state the step names, adopt the logged outcome
TStepBad == /\ Rec[l].a # "Reset"
            /\ ~StepOK(EvOf(Rec[l]), Rec[l].out)
            /\ LET e == EvOf(Rec[l]) IN
               /\ conn' = IF e.a = "Disconnect" THEN NoConn ELSE e.c
               /\ subs' = CASE e.a = "Subscribe"  -> [m \in e.S |-> KeysOf(m, e.off, e.d, e.dk)]
                            [] e.a = "Disconnect" -> EmptyFn
                            [] OTHER              -> subs
               /\ last' = e
            /\ out' = Rec[l].out
            /\ bad' = Append(bad, l)

TNext == /\ l <= Len(Rec)
         /\ l' = l + 1
         /\ (TReset \/ TStepOK \/ TStepBad)

TSpec == TInit /\ [][TNext]_tvars

\* the C13 formulas, evaluated on every accepted step of the implementation
TProps == [][last'.a = "Reset" \/ bad' # bad \/ StepProps]_tvars

Done == l = Len(Rec) + 1 => PrintT(<<"TRACE_END", ToJson(bad)>>)
Post == PrintT(<<"TRACE_DONE", TLCGet("stats").diameter, Len(Rec)>>)
=============================================================================
