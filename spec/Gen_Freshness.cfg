SPECIFICATION GSpec
CONSTANTS
  ITEMS = {"bal0", "bal1", "bal3", "bal4", "l1_0", "l1_4", "lt_0", "lt_4", "ord_c1", "ord_c2", "ord_c3", "ord_c4"}
  TIMES = {1, 2, 3, 4}
  VALUES = {5, 6, 7, 8}
  MaxLen = 25
INVARIANT Emit Latest
PROPERTY NoRollback
CHECK_DEADLOCK FALSE
