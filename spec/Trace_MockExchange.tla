------------------------- MODULE Trace_MockExchange -------------------------
(* Trace validation (impl -> spec): every line recorded from the real        *)
(* exchange must be a step MockExchange allows.                              *)
(*   {"a":"Reset","fee":..,"lat":..,"cfg":{bal,open},"post":{bal,open,trades,notif}}   *)
(*        a fresh exchange built from the configuration `cfg`                *)
(*   {"a":"open"|"snapshot"|"balances"|"trades", t, side, p, q, instr, kind, since,     *)
(*    "out":"ok"|"rej"|"query", "why", "id", "filled", "rt",                 *)
(*    "res":{bal,open,trades}, "post":{bal,open,trades,notif}}               *)
(*        one request, the answer, the projected ledger after it             *)
(*        (`rt` = the exchange time the response of an accepted order       *)
(*        carries, -1 otherwise)                                             *)
(* Amounts are integers in 1/100 units, times in ms.                         *)
(* A line that is not a step of the spec is recorded in `bad` together with  *)
(* the names of the clauses of C08 it breaks (`why`), and the logged state   *)
(* is adopted, so one pass reports every rejected line and the clauses are   *)
(* judged independently of one another.                                      *)
EXTENDS MockExchange, Json, IOUtils

Rec == ndJsonDeserialize(IOEnv.TRACE)

VARIABLES l, bad, why
tvars == <<vars, l, bad, why>>

BalOf(b) == [a \in Assets |-> [total |-> b[a].total, free |-> b[a].free]]
SetOf(s) == {s[i] : i \in DOMAIN s}
ReqOf(x) == Req(x.a, x.t, x.side, x.p, x.q, x.instr, x.kind, x.since)

\* the exchange clock is observable only through accepted orders (the response and the fill
\* carry it); otherwise any admissible reading will do - take the code's
ClockOf(x) == IF x.out = "ok" THEN x.rt ELSE NowAfter(ReqOf(x))

ResetResp == Resp([NoReq EXCEPT !.op = "Reset"], "init", "-", -1, 0)

TInit == /\ l = 1 /\ bad = <<>> /\ why = <<>>
         /\ fee = 0 /\ lat = 0 /\ bal = NoBal /\ open = {} /\ nextId = 0 /\ now = 0
         /\ trades = <<>> /\ notif = <<>>
         /\ last = Resp(NoReq, "init", "-", -1, 0)
         /\ res = NoRes

\* a fresh exchange shows exactly its configuration and an empty history
ResetOK(x) == /\ BalOf(x.post.bal) = BalOf(x.cfg.bal)
              /\ SetOf(x.post.open) = SetOf(x.cfg.open)
              /\ Len(x.post.trades) = 0 /\ Len(x.post.notif) = 0

Adopt(x) == /\ bal' = BalOf(x.post.bal)
            /\ open' = SetOf(x.post.open)
            /\ trades' = x.post.trades
            /\ notif' = x.post.notif

TReset == /\ Rec[l].a = "Reset"
          /\ fee' = Rec[l].fee /\ lat' = Rec[l].lat
          /\ Adopt(Rec[l])
          /\ nextId' = 0 /\ now' = 0 /\ last' = ResetResp /\ res' = NoRes
          /\ IF ResetOK(Rec[l]) THEN UNCHANGED <<bad, why>>
             ELSE /\ bad' = Append(bad, l)
                  /\ why' = Append(why, [l |-> l, f |-> {"InitReflects"}])

(* The clauses of C08 on one logged line x, evaluated in the state before it. *)
Checks(x) ==
  LET r   == ReqOf(x)
      acc == x.out = "ok"
      pb  == BalOf(x.post.bal)
      pt  == x.post.trades
      pn  == x.post.notif
      n0  == Len(notif)
  IN [ AcceptIff    |-> (r.op = "open") => (x.out \in {"ok", "rej"} /\ (acc <=> Accepts(r))),
       ExactDebit   |-> acc => (Listed(r) /\ pb = Debit(bal, Spent(r), Need(r))),
       \* judged on the step that breaks it (the logged state is adopted afterwards)
       NonNegative  |-> (\A a \in Assets : bal[a].free >= 0 /\ bal[a].total >= 0 /\ bal[a].total = bal[a].free)
                          => (\A a \in Assets : pb[a].free >= 0 /\ pb[a].total >= 0 /\ pb[a].total = pb[a].free),
       RejectPure   |-> ~acc => (pb = bal /\ pt = trades /\ pn = notif),
       FreshIds     |-> acc => x.id \in FreshIds,
       OneFill      |-> acc => (x.filled = r.q /\ pt = Append(trades, Fill(x.id, r, x.rt))),
       Clock        |-> acc => x.rt \in ClockChoices(r),
       Notif11      |-> acc => ( /\ Len(pn) = n0 + 2 /\ SubSeq(pn, 1, n0) = notif
                                 /\ pn[n0 + 1].k = "balance" /\ pn[n0 + 2].k = "trade" ),
       NotifContent |-> (acc /\ Len(pn) = n0 + 2) =>
                             ( /\ pn[n0 + 1] = BalNotif(Spent(r), pb[Spent(r)])
                               /\ pn[n0 + 2] = FillNotif(Fill(x.id, r, x.rt)) ),
       QueriesReflect |-> /\ (r.op # "open") <=> (x.out = "query")
                          /\ r.op = "snapshot" => (BalOf(x.res.bal) = bal /\ SetOf(x.res.open) = open)
                          /\ r.op = "balances" => BalOf(x.res.bal) = bal
                          /\ r.op = "trades"   => x.res.trades = TradesSince(r.since),
       OpenUnchanged |-> SetOf(x.post.open) = open ]

Failing(x) == {n \in DOMAIN Checks(x) : ~Checks(x)[n]}
StepOK(x)  == Failing(x) = {}

\* what the log shows of the step, against the spec's own action
Observed(x) == /\ bal' = BalOf(x.post.bal)
               /\ open' = SetOf(x.post.open)
               /\ trades' = x.post.trades
               /\ notif' = x.post.notif
               /\ last'.out = x.out
               /\ (x.out = "ok" => last'.id = x.id /\ last'.filled = x.filled)
               /\ (x.a = "snapshot" => res'.bal = BalOf(x.res.bal) /\ res'.open = SetOf(x.res.open))
               /\ (x.a = "balances" => res'.bal = BalOf(x.res.bal))
               /\ (x.a = "trades"   => res'.trades = x.res.trades)

TStepOK == /\ Rec[l].a # "Reset"
           /\ StepOK(Rec[l])
           /\ Serve(ReqOf(Rec[l]), Rec[l].id, ClockOf(Rec[l]))   \* the spec's own action
           /\ Observed(Rec[l])
           /\ UNCHANGED <<bad, why>>

TStepBad == /\ Rec[l].a # "Reset"
            /\ ~StepOK(Rec[l])
            /\ Adopt(Rec[l])
            /\ nextId' = IF Rec[l].out = "ok" /\ Rec[l].id >= nextId THEN Rec[l].id + 1 ELSE nextId
            /\ now' = ClockOf(Rec[l])
            /\ last' = Resp(ReqOf(Rec[l]), Rec[l].out, "-", Rec[l].id, Rec[l].filled)
            /\ res' = NoRes
            /\ UNCHANGED world
            /\ bad' = Append(bad, l)
            /\ why' = Append(why, [l |-> l, f |-> Failing(Rec[l])])

TNext == /\ l <= Len(Rec)
         /\ l' = l + 1
         /\ (TReset \/ TStepOK \/ TStepBad)

TSpec == TInit /\ [][TNext]_tvars

\* the C08 formulas, evaluated on every accepted step of the implementation
TProps == [][last'.req.op = "Reset" \/ bad' # bad \/ StepProps]_tvars

Done == l = Len(Rec) + 1 =>
          /\ PrintT(<<"TRACE_END", ToJson(bad)>>)
          /\ ndJsonSerialize(IOEnv.TRACE \o ".why", why)
Post == PrintT(<<"TRACE_DONE", TLCGet("stats").diameter, Len(Rec)>>)
=============================================================================
