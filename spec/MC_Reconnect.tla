---------------------------- MODULE MC_Reconnect ----------------------------
(* Constants of the exhaustive runs of Reconnect (records cannot be written in a .cfg). *)
EXTENDS Reconnect

\* 100 ms x3 capped at 500 (the measured policy); a cap that bites at once; no growth at all
PoliciesA == {[b0 |-> 100, mult |-> 3, max |-> 500],
              [b0 |-> 100, mult |-> 2, max |-> 150],
              [b0 |-> 50,  mult |-> 1, max |-> 50]}
\* barter-data's STREAM_RECONNECTION_POLICY
PoliciesB == PoliciesA \cup {[b0 |-> 125, mult |-> 2, max |-> 60000]}
\* for the scripts with latencies and silences
PoliciesT == {[b0 |-> 10, mult |-> 2, max |-> 15]}
ModesS    == {"stream"}
ModesAll  == {"stream", "handler"}
=============================================================================
