--------------------------- MODULE Trace_Position ---------------------------
(* Trace validation (impl -> spec) for C02 / C15: every line recorded from    *)
(* the implementation by `c02|c15 random` must be a step Position allows.     *)
(*                                                                          *)
(*  {"a":"Reset"}                       a fresh system                       *)
(*  {"a":"Fill", side,p,q,fee,id,t}     one fill (arguments in milli-units)  *)
(*  {"a":"Mark", p, newer}              a market event after which an open   *)
(*                                      position exists and the data state   *)
(*                                      yields price p (read from the state) *)
(*  {"a":"Quiet"}  (-> MarkNoPrice)     a market event without price or      *)
(*                                      without open position                *)
(*  {"a":"Persist"} (-> Persist)        the state was serialised and         *)
(*                                      deserialised                         *)
(*  every line: "post" = the projected position after the call, "exit" =    *)
(*  the PositionExited the call returned, all amounts in integer milli-units *)
(*  (rounded), compared within one milli-unit (DESIGN 5.5).                  *)
(*                                                                          *)
(* The spec state follows the spec's OWN actions (exact fractions); MarkStale*)
(* - the one nondeterministic action - is resolved by the logged value.      *)
(* FOCUS selects the verdict (DESIGN 5.4, attribution):                      *)
(*   "C02": every field but `unreal`, the closed record, and Conservation    *)
(*          evaluated on the logged values; a mismatch is recorded as        *)
(*          <<line, {"book"}>> and the rest of the segment is skipped.       *)
(*   "C15": `unreal` only -> <<line, {"unreal"}>>, the run continues (the    *)
(*          logged value is remembered in `lu` so that a later "kept" value  *)
(*          is not reported again); if the bookkeeping diverges the segment  *)
(*          cannot be judged: <<line, {"cut"}>> and skipped.                 *)
EXTENDS Position, TLC, Json, IOUtils

CONSTANT FOCUS

Rec == ndJsonDeserialize(IOEnv.TRACE)

VARIABLES l,       \* next line
          bad,     \* sequence of <<line, {tag}>>
          skip,    \* ignoring the rest of a segment
          lu,      \* logged `unreal` of the previous line (milli-units)
          xreal    \* sum of the logged realised PnL of the closed records (milli-units)
tvars == <<pos, exited, net, cash, fees, nfill, fresh, last, l, bad, skip, lu, xreal>>

M(x) == Frac(x, 1000)
\* |a/1000 - r| <= 1/1000
Near(r, a) == AbsI(a * r[2] - r[1] * 1000) <= r[2]

BookNear(P, post) ==
    /\ post.side = P.side
    /\ IsOpen(P) => /\ Near(P.qty, post.qty) /\ Near(P.qmax, post.qmax) /\ Near(P.avg, post.avg)
                    /\ Near(P.real, post.real) /\ Near(P.feeIn, post.feeIn) /\ Near(P.feeOut, post.feeOut)
                    /\ Len(post.trades) = Len(P.trades)
                    /\ \A k \in 1..Len(P.trades) : post.trades[k] = P.trades[k]
                    /\ post.tin = P.tin /\ post.tupd = P.tupd

ExitNear(c, ex) ==
    /\ ex.side = c.side
    /\ Near(c.avg, ex.avg) /\ Near(c.qmax, ex.qmax) /\ Near(c.real, ex.real)
    /\ Near(c.feeIn, ex.feeIn) /\ Near(c.feeOut, ex.feeOut)
    /\ Len(ex.trades) = Len(c.trades)
    /\ \A k \in 1..Len(c.trades) : ex.trades[k] = c.trades[k]
    /\ ex.tin = c.tin /\ ex.tout = c.tout

\* Conservation (C02) on the LOGGED values, in milli-units: closed + open realised PnL
\*   = cash - fees + signed open quantity x average entry price   (up to the rounding of the log)
ConsLogged(post, nx, ncash, nfees, nexits) ==
    LET cf   == Sub(ncash, nfees)
        cfm  == (cf[1] * 1000) \div cf[2]
        open == post.side # "none"
        sq   == IF ~open THEN 0 ELSE (IF post.side = "buy" THEN 1 ELSE -1) * ((post.qty * post.avg) \div 1000)
        lhs  == nx + (IF open THEN post.real ELSE 0)
    IN AbsI(lhs - (cfm + sq)) <= 4 + nexits + (post.qty \div 1000)

Verdict(okBook, okUn) ==
    IF FOCUS = "C02"
    THEN /\ bad' = IF okBook THEN bad ELSE Append(bad, <<l, {"book"}>>)
         /\ skip' = ~okBook
    ELSE /\ bad' = IF ~okBook THEN Append(bad, <<l, {"cut"}>>)
                   ELSE IF ~okUn THEN Append(bad, <<l, {"unreal"}>>) ELSE bad
         /\ skip' = ~okBook

TInit == /\ Init /\ l = 1 /\ bad = <<>> /\ skip = FALSE /\ lu = 0 /\ xreal = 0

TReset == /\ Rec[l].a = "Reset"
          /\ pos' = NoPos /\ exited' = <<>> /\ net' = Zero /\ cash' = Zero /\ fees' = Zero /\ nfill' = 0
          /\ fresh' = "none" /\ last' = NoEvent
          /\ skip' = FALSE /\ lu' = 0 /\ xreal' = 0
          /\ UNCHANGED bad

TSkip == /\ skip /\ Rec[l].a # "Reset"
         /\ UNCHANGED <<pos, exited, net, cash, fees, nfill, fresh, last, bad, skip, lu, xreal>>

TFill == /\ ~skip /\ Rec[l].a = "Fill"
         /\ LET r == Rec[l] IN
            /\ Fill(r.side, M(r.p), M(r.q), M(r.fee), r.id, r.t)          \* the spec's own action
            /\ LET emitted == Len(exited') > Len(exited)
                   nx      == xreal + (IF r.exit.side # "none" THEN r.exit.real ELSE 0)
                   okExit  == IF emitted THEN ExitNear(exited'[Len(exited')], r.exit) ELSE r.exit.side = "none"
                   okBook  == /\ BookNear(pos', r.post) /\ okExit
                              /\ ConsLogged(r.post, nx, cash', fees', Len(exited'))
                   okUn    == IsOpen(pos') => Near(pos'.unreal, r.post.unreal)
               IN /\ Verdict(okBook, okUn)
                  /\ xreal' = nx
            /\ lu' = r.post.unreal

TMark == /\ ~skip /\ Rec[l].a = "Mark"
         /\ LET r     == Rec[l]
                price == M(r.p)
                est   == Estimate(pos, price)
                open  == ~r.newer /\ fresh = "fill"      \* the open choice of DESIGN 5.4
            IN
            /\ Mark(price, r.newer)                                        \* the spec's own action
            /\ open => pos'.unreal = (IF Near(est, r.post.unreal) THEN est ELSE pos.unreal)
            /\ LET okBook == BookNear(pos', r.post) /\ r.exit.side = "none"
                   okUn   == Near(pos'.unreal, r.post.unreal) \/ (open /\ r.post.unreal = lu)
               IN Verdict(okBook, okUn)
            /\ lu' = r.post.unreal
         /\ UNCHANGED xreal

\* a market event after which the implementation holds no price for the instrument, or no open
\* position: accepted only as the stutter MarkNoPrice - the logged position must be the spec's
\* (still open if it was open: side, size, realised PnL, fees, ids), no closed record, and the
\* logged estimate must be the previous line's
TQuiet == /\ ~skip /\ Rec[l].a = "Quiet"
          /\ MarkNoPrice                                                   \* the spec's own action
          /\ UNCHANGED xreal
          /\ Verdict(BookNear(pos', Rec[l].post) /\ Rec[l].exit.side = "none",
                     IsOpen(pos) => Rec[l].post.unreal = lu)
          /\ lu' = Rec[l].post.unreal

\* the state was stored and restored: accepted only as the stutter Persist - the restored position
\* is the logged one before (every field, the fill ids included), nothing is emitted
TPersist == /\ ~skip /\ Rec[l].a = "Persist"
            /\ Persist                                                     \* the spec's own action
            /\ UNCHANGED xreal
            /\ Verdict(BookNear(pos', Rec[l].post) /\ Rec[l].exit.side = "none",
                       IsOpen(pos) => Rec[l].post.unreal = lu)
            /\ lu' = Rec[l].post.unreal

TNext == /\ l <= Len(Rec)
         /\ l' = l + 1
         /\ (TReset \/ TSkip \/ TFill \/ TMark \/ TQuiet \/ TPersist)

TSpec == TInit /\ [][TNext]_tvars

\* the C02 / C15 formulas of the spec, evaluated on every step the implementation made the spec take
TProps == [][Rec[l].a = "Reset" \/ UNCHANGED vars \/ StepProps]_tvars

Done == l = Len(Rec) + 1 => PrintT(<<"TRACE_END", ToJson(bad)>>)
Post == PrintT(<<"TRACE_DONE", TLCGet("stats").diameter, Len(Rec)>>)
=============================================================================
