SPECIFICATION GSpecT
CONSTANTS
  STALL = {}
  LateResponseOK = TRUE
  NoTimeout = FALSE
  STALLOFF = {0}
  REQ = {1, 2, 3}
  T = 100
  ACCEPT = {0, 50}
  DELAY = {50, 100, 150}
  EX = 0
  INST = {0, 1, 2}
  SIDE = {"buy", "sell"}
  PRICE = {11, 12, 13, 14}
  QTY = {2}
  BUNDLE = {"lim", "mkt"}
  NS = {3}
  SHUT = {9000}
INVARIANTS WellFormed PrintScn
CHECK_DEADLOCK FALSE
